import Mp.Parse
import Mp.Cue
import Mp.CueFunc
/-! The validator on the parsed operation itself (cue.go CueValidate, opPath / opLogicalOperation / opFunction .Validate), for
    queries made of key paths, calls and groups, with arguments that are literals, paths and groups, at any depth:

    * a path is `$` (or `@` at the top level, which starts at the root like `$`) followed by keys and then by calls;
    * the keys are walked by `validateKeys` (blocked root fields, primitives, lists, undeclared keys); a key path that is rejected
      ends the walk of that path (the calls after it are not looked at, as in the code);
    * every call is looked up in the regenerated descriptor table; its ValidOn test, the test of every argument against the
      descriptor's parameter at its position (with the code's variadic rule and its rule that a Single / Array parameter is held
      to its Single / Array side only) and the type it reports follow opFunction.Validate; a path argument is validated like a path
      (with the blocked list: `Mp/CueWalk.lean`), a group argument like a group;
    * a group is accepted when every operand is, and every operand that is a path ends in (Boolean, Single); it reports (Boolean, Single);
    * the verdict: accepted with the reported type when no part carries an error, else rejected with the class of the error the
      harness reads off the error text (not available > primitive > list > undeclared > other).

    Whatever is not of that shape - filters, keys after calls, `@` paths below the root, unknown or flagged function names, a
    call directly on `$` - is DECLINED (`none`), never guessed. Core-only; run by the driver on the query text. -/
namespace Mp
open Generated

def bytesToString (b : Bytes) : Option String := String.fromUTF8? (ByteArray.mk b.toArray)

/-- where the walk of a path stands -/
inductive PState where
  | keys (ks : List String)
  | calls (lastIdent : CTy) (prev : String × String) (prevWasFunc : Bool) (errs : List String)
  | stopped (errs : List String)      -- the key path was rejected: nothing after it is looked at

def clsRank (c : String) : Nat :=
  match c with
  | "blocked" => 0 | "primitive" => 1 | "array" => 2 | "notfound" => 3 | _ => 4

def worstCls (errs : List String) : String :=
  errs.foldl (fun best c => if clsRank c < clsRank best then c else best) "other"

/-- the test of one argument against the descriptor: `vp` = position of the first variadic parameter met so far -/
def paramCheck (fd : FuncDesc) (i : Nat) (vp : Option Nat) (pty : String × String) : List String × Option Nat :=
  let pos := vp.getD i
  match fd.params[pos]? with
  | none => (["other"], vp)
  | some pd =>
    let vp' := if vp.isNone && pd.2 == "Variadic" then some i else vp
    let errs :=
      if pd.2 == "Single" then (if pty.2 != "Single" then ["other"] else [])
      else if pd.2 == "Array" then (if pty.2 != "Array" then ["other"] else [])
      else if pd.1 != "Any" && pd.1 != pty.1 then ["other"] else []
    (errs, vp')

def finishKeys (root : CTy) (bl : List String) (ks : List String) : Option PState :=
  match ks with
  | [] => none
  | _ =>
    match validateKeys root bl ks [] none true with
    | .rej c => some (.stopped [c])
    | .err => none
    | .acc t io =>
      match findValueAtPath root ks with
      | none => none
      | some last => some (.calls last (t, io) false [])

mutual
/-- `top` = the path stands at the top level or is an operand of a top-level group (an `@` path starts at the root there) -/
def vPath (root : CTy) (bl : List String) (top : Bool) : PathOp → Option (List String × (String × String))
  | .mk _ isRoot _ _ ops _ => if !isRoot && !top then none else vParts root bl (.keys []) ops
def vParts (root : CTy) (bl : List String) (st : PState) : List PathPart → Option (List String × (String × String))
  | [] =>
    match st with
    | .keys ks =>
      (match finishKeys root bl ks with
       | some (.calls _ prev _ errs) => some (errs, prev)
       | some (.stopped errs) => some (errs, ("", ""))
       | _ => none)
    | .calls _ prev _ errs => some (errs, prev)
    | .stopped errs => some (errs, ("", ""))
  | .ident name _ _ :: rest =>
    match st with
    | .keys ks => (match bytesToString name with | some n => vParts root bl (.keys (ks ++ [n])) rest | none => none)
    | .stopped errs => vParts root bl (.stopped errs) rest
    | .calls .. => none
  | .filter _ _ :: _ => none
  | .func isInvalid name params _ :: rest =>
    if isInvalid then none else
    let st' : Option PState := match st with
      | .keys ks => finishKeys root bl ks
      | s => some s
    match st' with
    | none => none
    | some (.keys _) => none
    | some (.stopped errs) => vParts root bl (.stopped errs) rest
    | some (.calls last prev pwf errs) =>
      match (bytesToString name).bind lookupFunc with
      | none => none
      | some fd =>
        match vParams root bl fd 0 none params with
        | none => none
        | some perrs =>
          let e1 := if validOnOk fd prev then [] else ["other"]
          vParts root bl (.calls last (funcReturns fd prev pwf last) true (errs ++ e1 ++ perrs)) rest
def vParams (root : CTy) (bl : List String) (fd : FuncDesc) (i : Nat) (vp : Option Nat) : List Param → Option (List String)
  | [] => some []
  | p :: rest =>
    match vParam root bl p with
    | none => none
    | some (perrs, pty) =>
      let (cerrs, vp') := paramCheck fd i vp pty
      match vParams root bl fd (i + 1) vp' rest with
      | none => none
      | some more => some ((if perrs.isEmpty then cerrs else perrs) ++ more)
def vParam (root : CTy) (bl : List String) : Param → Option (List String × (String × String))
  | .num _ => some ([], ("Number", "Single"))
  | .str _ => some ([], ("String", "Single"))
  | .bool _ => some ([], ("Boolean", "Single"))
  | .path p => vPath root bl false p
  | .logic l => vLogic root bl false l
def vLogic (root : CTy) (bl : List String) (top : Bool) : LogicOp → Option (List String × (String × String))
  | .mk isInvalid _ _ ops _ =>
    if isInvalid then none else
    match vLParts root bl top ops with
    | none => none
    | some errs => some (errs, ("Boolean", "Single"))
def vLParts (root : CTy) (bl : List String) (top : Bool) : List LogicPart → Option (List String)
  | [] => some []
  | .path p :: rest =>
    match vPath root bl top p, vLParts root bl top rest with
    | some (errs, ty), some more => some ((if errs.isEmpty && ty != ("Boolean", "Single") then ["other"] else errs) ++ more)
    | _, _ => none
  | .logic l :: rest =>
    match vLogic root bl top l, vLParts root bl top rest with
    | some (errs, _), some more => some (errs ++ more)
    | _, _ => none
end

def vTop (root : CTy) (bl : List String) : TopOp → Option (List String × (String × String))
  | .path p => vPath root bl true p
  | .logic l => vLogic root bl true l

/-- the line the harness prints for the implementation: ACC type io | REJ class; none = declined -/
def verdictOf (r : Option (List String × (String × String))) : Option String :=
  r.map fun (errs, ty) => if errs.isEmpty then s!"ACC {ty.1} {ty.2}" else s!"REJ {worstCls errs}"

end Mp
