import Mp.CmpFunc
/-! C05 / C17 — AnyOf is "the input equals one of the arguments": numbers by value, strings and booleans exactly,
    different kinds never equal. The proof needs the arguments to be listed numbers first (paramsGetAll), a fact that is
    regenerated from the source (Mp.FactChecks.params_order). -/
namespace Mp
open Dec

theorem anyOf_go_nums (d : Dec) : ∀ (ns : List Dec) (rest : List Prm), (∀ p ∈ rest, ∀ q, p ≠ Prm.num q) →
    pureFunc.go (.dec d) (ns.map Prm.num ++ rest) = ns.any (fun q => cmp d q == .eq) := by
  intro ns
  induction ns with
  | nil =>
    intro rest hrest
    cases rest with
    | nil => simp [pureFunc.go]
    | cons p t =>
      have := hrest p (List.mem_cons_self)
      cases p with
      | num q => exact absurd rfl (this q)
      | str s => simp [pureFunc.go]
      | bool b => simp [pureFunc.go]
  | cons n ns ih =>
    intro rest hrest
    simp only [List.map_cons, List.cons_append, pureFunc.go, List.any_cons]
    cases h : (cmp d n == .eq) with
    | true => simp
    | false => simp [ih rest hrest]

/-- AnyOf on a number: true iff some NUMBER argument has the same value (string and boolean arguments never match) -/
theorem anyOf_dec (d : Dec) (ps : List Prm) :
    pureFunc "AnyOf" ps (.dec d) = some (okBool ((prmNumbers ps).any (fun q => cmp d q == .eq))) := by
  unfold pureFunc
  simp only [prmAll]
  rw [List.append_assoc, anyOf_go_nums d (prmNumbers ps)]
  intro p hp q
  rcases List.mem_append.mp hp with h | h
  · obtain ⟨s, _, rfl⟩ := List.mem_map.mp h; simp
  · obtain ⟨b, _, rfl⟩ := List.mem_map.mp h; simp

theorem anyOf_dec_iff (d : Dec) (ps : List Prm) :
    pureFunc "AnyOf" ps (.dec d) = some (okBool true) ↔ ∃ q, Prm.num q ∈ ps ∧ d.toRat = q.toRat := by
  rw [anyOf_dec]
  constructor
  · intro h
    have : (prmNumbers ps).any (fun q => cmp d q == .eq) = true := by
      cases hb : (prmNumbers ps).any (fun q => cmp d q == .eq) with
      | true => rfl
      | false => rw [hb] at h; simp [okBool] at h
    obtain ⟨q, hq, he⟩ := List.any_eq_true.mp this
    refine ⟨q, ?_, (cmp_eq_iff d q).mp he⟩
    simp only [prmNumbers, List.mem_filterMap] at hq
    obtain ⟨p, hp, hpq⟩ := hq
    cases p <;> simp at hpq
    subst hpq; exact hp
  · rintro ⟨q, hq, he⟩
    have : (prmNumbers ps).any (fun q => cmp d q == .eq) = true := by
      apply List.any_eq_true.mpr
      refine ⟨q, ?_, (cmp_eq_iff d q).mpr he⟩
      simp only [prmNumbers, List.mem_filterMap]
      exact ⟨Prm.num q, hq, rfl⟩
    rw [this]

theorem anyOf_go_other (v : GoVal) (hv : ∀ d, v ≠ .dec d) : ∀ (ps : List Prm),
    pureFunc.go v ps = ps.any (fun p => goEq v p) := by
  intro ps
  induction ps with
  | nil => simp [pureFunc.go]
  | cons p t ih =>
    cases v with
    | dec d => exact absurd rfl (hv d)
    | _ => simp only [pureFunc.go, List.any_cons, ih] <;> cases goEq _ p <;> simp

/-- AnyOf on a string: true iff some STRING argument is exactly the input -/
theorem anyOf_str_iff (s : Bytes) (ps : List Prm) :
    pureFunc "AnyOf" ps (.str false s) = some (okBool true) ↔ Prm.str s ∈ ps := by
  unfold pureFunc
  simp only []
  rw [anyOf_go_other _ (by intro d; simp)]
  constructor
  · intro h
    have : (prmAll ps).any (fun p => goEq (.str false s) p) = true := by
      cases hb : (prmAll ps).any (fun p => goEq (.str false s) p) with
      | true => rfl
      | false => rw [hb] at h; simp [okBool] at h
    obtain ⟨p, hp, he⟩ := List.any_eq_true.mp this
    cases p with
    | str t =>
      simp [goEq] at he; subst he
      simp only [prmAll, List.mem_append, List.mem_map] at hp
      rcases hp with (⟨d, _, hd⟩ | ⟨t, ht, hts⟩) | ⟨b, _, hb⟩
      · cases hd
      · simp at hts; subst hts
        simp only [prmStrings, List.mem_filterMap] at ht
        obtain ⟨p, hp, hps⟩ := ht
        cases p <;> simp at hps
        subst hps; exact hp
      · cases hb
    | num d => simp [goEq] at he
    | bool b => simp [goEq] at he
  · intro hmem
    have : (prmAll ps).any (fun p => goEq (.str false s) p) = true := by
      apply List.any_eq_true.mpr
      refine ⟨Prm.str s, ?_, by simp [goEq]⟩
      simp only [prmAll, List.mem_append, List.mem_map]
      refine Or.inl (Or.inr ⟨s, ?_, rfl⟩)
      simp only [prmStrings, List.mem_filterMap]
      exact ⟨Prm.str s, hmem, rfl⟩
    rw [this]

#print axioms anyOf_dec_iff
#print axioms anyOf_str_iff
end Mp
