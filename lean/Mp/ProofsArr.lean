import Mp.EvalS
/-! C17 — First / Last / Index / Any return the right element (core-only proofs over the function model). -/
namespace Mp

/-- the elements of a slice as reflection hands them out, turned back into values -/
theorem elems_toAny (ei n : Bool) (xs : List GoVal) :
    (RV.elems (.val (.slice ei n xs))).map RV.toAny = xs := by
  simp only [RV.elems, List.map_map]
  induction xs with
  | nil => rfl
  | cons x t ih => cases ei <;> simp_all [RV.toAny, Function.comp]

theorem listOf_slice (ei n : Bool) (xs : List GoVal) :
    listOf (.slice ei n xs) = some (RV.elems (.val (.slice ei n xs))) := by
  cases xs <;> simp [listOf, RV.of, RV.derefOnce, RV.kind, GoVal.kind]

theorem elems_length (ei n : Bool) (xs : List GoVal) : (RV.elems (.val (.slice ei n xs))).length = xs.length := by
  simp [RV.elems]

theorem elems_get (ei n : Bool) (xs : List GoVal) (k : Nat) :
    ((RV.elems (.val (.slice ei n xs)))[k]?).map RV.toAny = xs[k]? := by
  simp only [RV.elems, List.getElem?_map, Option.map_map]
  cases xs[k]? with
  | none => rfl
  | some x => cases ei <;> simp [RV.toAny, Function.comp]

/-- C17: First returns the element at position 0 of a non-empty array (numbers as decimals) -/
theorem first_spec (ei n : Bool) (x : GoVal) (xs : List GoVal) :
    pureFunc "First" [] (.slice ei n (x :: xs)) = some (.ok (numberKindsToDecimal x)) := by
  unfold pureFunc
  simp only [listOf_slice]
  cases ei <;> simp [isEmptyValue, RV.of, RV.elems, RV.toAny]

/-- C17: Last returns the element at position length−1 -/
theorem last_spec (ei n : Bool) (x : GoVal) (xs : List GoVal) :
    pureFunc "Last" [] (.slice ei n (x :: xs)) = some (.ok (numberKindsToDecimal ((x :: xs).getLast (by simp)))) := by
  unfold pureFunc
  simp only [listOf_slice]
  have hne : (x :: xs) ≠ [] := by simp
  have hl : (RV.elems (.val (.slice ei n (x :: xs)))).getLast? = some (if ei then RV.iface ((x :: xs).getLast hne) else RV.val ((x :: xs).getLast hne)) := by
    simp only [RV.elems]
    rw [List.getLast?_map, List.getLast?_eq_some_getLast hne]
    rfl
  simp only [isEmptyValue, RV.of, List.isEmpty_cons, List.isEmpty_nil, Bool.not_true, Bool.false_eq_true, if_false, hl]
  cases ei <;> simp [RV.toAny]

/-- C17: First, Last and Index on an empty array are errors -/
theorem first_empty (ei n : Bool) : pureFunc "First" [] (.slice ei n []) = some .err := by
  unfold pureFunc; simp
theorem last_empty (ei n : Bool) : pureFunc "Last" [] (.slice ei n []) = some .err := by
  unfold pureFunc; simp

theorem natDec_facts (k : Nat) (hk : k < 2 ^ 63) :
    (⟨(k : Int), 0⟩ : Dec).isInteger = true ∧ (⟨(k : Int), 0⟩ : Dec).isNegative = false ∧ (⟨(k : Int), 0⟩ : Dec).intPart.toNat = k := by
  refine ⟨by simp [Dec.isInteger], by simp [Dec.isNegative], ?_⟩
  simp [Dec.intPart, Dec.rescale]
  have : k % 18446744073709551616 = k := Nat.mod_eq_of_lt (by omega)
  simp [this]
  split <;> omega

theorem cmp_nat (a b : Nat) : Dec.cmp ⟨(a : Int), 0⟩ (Dec.ofNat b) = compare a b := by
  simp only [Dec.cmp, Dec.rescalePair, Dec.ofNat, compare, compareOfLessAndEq, beq_self_eq_true, if_true, Int.ofNat_lt, Int.natCast_inj]

theorem compare_lt_of_lt {a b : Nat} (h : a < b) : compare a b = .lt := by simp [compare, compareOfLessAndEq, h]
theorem compare_ne_lt_of_le {a b : Nat} (h : b ≤ a) : compare a b ≠ .lt := by
  simp only [compare, compareOfLessAndEq]
  have : ¬ a < b := by omega
  simp only [this, if_false]
  split <;> simp

/-- C17: Index(k) returns the element at position k for 0 ≤ k < length … -/
theorem index_spec (ei n : Bool) (xs : List GoVal) (k : Nat) (hk : k < xs.length) (hb : k < 2 ^ 63) :
    pureFunc "Index" [.num ⟨k, 0⟩] (.slice ei n xs) = some (.ok (numberKindsToDecimal (xs[k]'hk))) := by
  obtain ⟨h1, h2, h3⟩ := natDec_facts k hb
  have hne : xs ≠ [] := by intro h; subst h; simp at hk
  obtain ⟨y, ys, rfl⟩ := List.exists_cons_of_ne_nil hne
  unfold pureFunc
  simp only [firstOfNumber, prmNumbers, List.filterMap, List.length_singleton, bne_self_eq_false, Bool.false_eq_true,
    ↓reduceIte, h1, h2, h3, listOf_slice, cmp_nat, elems_length]
  have hlt : compare k (ys.length + 1) = .lt := compare_lt_of_lt (by simpa using hk)
  have hget := elems_get ei n (y :: ys) k
  rw [List.getElem?_eq_getElem hk] at hget
  cases hg : (RV.elems (.val (.slice ei n (y :: ys))))[k]? with
  | none => rw [hg] at hget; simp at hget
  | some r =>
    rw [hg] at hget
    simp only [Option.map_some, Option.some.injEq] at hget
    simp [isEmptyValue, RV.of, hlt, hg, hget]

/-- … and an error (not a panic, not another element) for every whole k ≥ length -/
theorem index_out_of_range (ei n : Bool) (xs : List GoVal) (k : Nat) (hk : xs.length ≤ k) (hb : k < 2 ^ 63) :
    pureFunc "Index" [.num ⟨k, 0⟩] (.slice ei n xs) = some .err := by
  obtain ⟨h1, h2, h3⟩ := natDec_facts k hb
  unfold pureFunc
  simp only [firstOfNumber, prmNumbers, List.filterMap, List.length_singleton, bne_self_eq_false, Bool.false_eq_true,
    ↓reduceIte, h1, h2, listOf_slice, cmp_nat, elems_length]
  cases xs with
  | nil => simp
  | cons y ys =>
    have hge : compare k (ys.length + 1) ≠ .lt := compare_ne_lt_of_le (by simpa using hk)
    simp [isEmptyValue, RV.of, hge]

/-- a negative index is an error -/
theorem index_negative (ei n : Bool) (xs : List GoVal) (d : Dec) (hi : d.isInteger = true) (hneg : d.isNegative = true) :
    pureFunc "Index" [.num d] (.slice ei n xs) = some .err := by
  unfold pureFunc
  simp only [firstOfNumber, prmNumbers, List.filterMap, List.length_singleton, bne_self_eq_false, Bool.false_eq_true,
    ↓reduceIte, hi, hneg, listOf_slice]
  cases xs with
  | nil => simp
  | cons y ys => simp [isEmptyValue, RV.of]

/-- a fractional index is an error -/
theorem index_fractional (v : GoVal) (d : Dec) (hi : d.isInteger = false) :
    pureFunc "Index" [.num d] v = some .err := by
  unfold pureFunc
  simp [firstOfNumber, prmNumbers, hi]

/-- C17 identities: First ≡ Index(0) and Last ≡ Index(Count−1) on every non-empty slice -/
theorem first_eq_index0 (ei n : Bool) (x : GoVal) (xs : List GoVal) :
    pureFunc "First" [] (.slice ei n (x :: xs)) = pureFunc "Index" [.num ⟨(0 : Nat), 0⟩] (.slice ei n (x :: xs)) := by
  rw [first_spec, index_spec ei n (x :: xs) 0 (by simp) (by decide)]
  rfl

theorem last_eq_index (ei n : Bool) (x : GoVal) (xs : List GoVal) (hb : xs.length < 2 ^ 63) :
    pureFunc "Last" [] (.slice ei n (x :: xs)) = pureFunc "Index" [.num ⟨((x :: xs).length - 1 : Nat), 0⟩] (.slice ei n (x :: xs)) := by
  rw [last_spec, index_spec ei n (x :: xs) ((x :: xs).length - 1) (by simp) (by simp; omega)]
  congr 2
  rw [List.getLast_eq_getElem]

/-- C17: Any is length > 0 -/
theorem any_spec (ei n : Bool) (xs : List GoVal) :
    pureFunc "Any" [] (.slice ei n xs) = some (okBool (!xs.isEmpty)) := by
  unfold pureFunc
  cases xs with
  | nil => simp [isEmptyValue, RV.of]
  | cons y ys => simp [isEmptyValue, RV.of, RV.derefOnce, RV.kind, GoVal.kind]

#print axioms first_spec
#print axioms last_spec
#print axioms first_empty
#print axioms last_empty
#print axioms index_spec
#print axioms index_out_of_range
#print axioms index_negative
#print axioms index_fractional
#print axioms first_eq_index0
#print axioms last_eq_index
#print axioms any_spec
end Mp
