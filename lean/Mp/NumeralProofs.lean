import Mp.DecOps
/-! What a NUMERAL is - the strings `decimal.NewFromString` (model: `Dec.ofString`) accepts, which the library reads as numbers wherever
    a function receives them and which the string properties (C01, C05, C18, C19: "strings that are not numerals") set aside: a string
    that is accepted consists of digits, signs, at most one dot and an exponent mark and nothing else. So a text with a blank, a letter
    other than `e` / `E`, a digit separator or any byte outside ASCII is never a numeral, and neither is the empty text. Core-only. -/
namespace Mp.Dec

/-- a byte that can occur in a numeral -/
def NumByte (b : UInt8) : Prop := (48 ≤ b.toNat ∧ b.toNat ≤ 57) ∨ b = 43 ∨ b = 45 ∨ b = 46 ∨ b = 69 ∨ b = 101

theorem parseIntDigits_alphabet (t : Bytes) (n : Int) (h : parseIntDigits t = some n) :
    t ≠ [] ∧ ∀ b ∈ t, (48 ≤ b.toNat ∧ b.toNat ≤ 57) ∨ b = 43 ∨ b = 45 := by
  unfold parseIntDigits at h
  have key : ∀ (body : Bytes), ¬ (body.isEmpty || !(body.all fun c => decide (48 ≤ c.toNat) && decide (c.toNat ≤ 57))) = true →
      body ≠ [] ∧ ∀ b ∈ body, 48 ≤ b.toNat ∧ b.toNat ≤ 57 := by
    intro body hb
    simp only [Bool.or_eq_true, Bool.not_eq_true', not_or, Bool.not_eq_false] at hb
    refine ⟨by intro he; subst he; simp at hb, ?_⟩
    intro b hbm
    have := List.all_eq_true.mp hb.2 b hbm
    simpa using this
  split at h
  rename_i nb neg body heq
  split at h
  · simp at h
  · rename_i hc
    obtain ⟨hne, hd⟩ := key _ hc
    split at heq
    · rename_i t'
      simp only [Prod.mk.injEq] at heq
      obtain ⟨_, rfl⟩ := heq
      refine ⟨by simp, ?_⟩
      intro b hb
      rcases List.mem_cons.mp hb with rfl | hb
      · right; left; rfl
      · exact Or.inl (hd b hb)
    · rename_i t'
      simp only [Prod.mk.injEq] at heq
      obtain ⟨_, rfl⟩ := heq
      refine ⟨by simp, ?_⟩
      intro b hb
      rcases List.mem_cons.mp hb with rfl | hb
      · right; right; rfl
      · exact Or.inl (hd b hb)
    · simp only [Prod.mk.injEq] at heq
      obtain ⟨_, rfl⟩ := heq
      exact ⟨hne, fun b hb => Or.inl (hd b hb)⟩

theorem indexAny_go_split (p : UInt8 → Bool) : ∀ (l : Bytes) (k i : Nat), indexAny.go p l k = some i →
    ∃ c, k ≤ i ∧ p c = true ∧ l = l.take (i - k) ++ c :: l.drop (i - k + 1) := by
  intro l
  induction l with
  | nil => intro k i h; simp [indexAny.go] at h
  | cons x t ih =>
    intro k i h
    unfold indexAny.go at h
    by_cases hp : p x = true
    · rw [if_pos hp] at h
      cases h
      exact ⟨x, Nat.le_refl _, hp, by simp⟩
    · rw [if_neg hp] at h
      obtain ⟨c, hk, hc, hl⟩ := ih (k + 1) i h
      refine ⟨c, by omega, hc, ?_⟩
      have : i - k = (i - (k + 1)) + 1 := by omega
      rw [this]
      simp only [List.take_succ_cons, List.drop_succ_cons, List.cons_append]
      rw [← hl]

theorem indexAny_split (s : Bytes) (p : UInt8 → Bool) (i : Nat) (h : indexAny s p = some i) :
    ∃ c, p c = true ∧ s = s.take i ++ c :: s.drop (i + 1) := by
  obtain ⟨c, _, hc, hs⟩ := indexAny_go_split p s 0 i h
  exact ⟨c, hc, by simpa using hs⟩

/-- everything before the exponent mark: digits, a sign, one dot -/
theorem mantissa_alphabet (value : Bytes) (exp0 : Int) (d : Dec)
    (h : (let dots := value.filter (· == 46)
          if dots.length > 1 then none else
          let (intString, exp) : Bytes × Int :=
            match indexAny value (· == 46) with
            | none => (value, exp0)
            | some p =>
              let frac := value.drop (p + 1)
              (value.take p ++ frac, exp0 - frac.length)
          match parseIntDigits intString with
          | none => none
          | some c => if exp < -(2 ^ 31) || exp > 2 ^ 31 - 1 then none else some (⟨c, exp⟩ : Dec)) = some d) :
    value ≠ [] ∧ ∀ b ∈ value, NumByte b := by
  simp only at h
  split at h
  · simp at h
  · cases hidx : indexAny value (· == 46) with
    | none =>
      rw [hidx] at h
      simp only at h
      cases hp : parseIntDigits value with
      | none => rw [hp] at h; simp at h
      | some c =>
        obtain ⟨hne, hal⟩ := parseIntDigits_alphabet value c hp
        refine ⟨hne, fun b hb => ?_⟩
        rcases hal b hb with h1 | h1 | h1
        · exact Or.inl h1
        · exact Or.inr (Or.inl h1)
        · exact Or.inr (Or.inr (Or.inl h1))
    | some p =>
      rw [hidx] at h
      simp only at h
      obtain ⟨c0, hc0, hsplit⟩ := indexAny_split value _ p hidx
      cases hp : parseIntDigits (value.take p ++ value.drop (p + 1)) with
      | none => rw [hp] at h; simp at h
      | some c =>
        obtain ⟨_, hal⟩ := parseIntDigits_alphabet _ c hp
        refine ⟨by intro he; rw [he] at hsplit; simp at hsplit, fun b hb => ?_⟩
        rw [hsplit] at hb
        simp only [List.mem_append, List.mem_cons] at hb
        have hdot : c0 = 46 := by simpa using hc0
        rcases hb with hb | rfl | hb
        · rcases hal b (List.mem_append_left _ hb) with h1 | h1 | h1
          · exact Or.inl h1
          · exact Or.inr (Or.inl h1)
          · exact Or.inr (Or.inr (Or.inl h1))
        · exact Or.inr (Or.inr (Or.inr (Or.inl hdot)))
        · rcases hal b (List.mem_append_right _ hb) with h1 | h1 | h1
          · exact Or.inl h1
          · exact Or.inr (Or.inl h1)
          · exact Or.inr (Or.inr (Or.inl h1))

/-- **a numeral is made of digits, signs, a dot and an exponent mark, and is not empty** -/
theorem ofString_alphabet (s : Bytes) (d : Dec) (h : ofString s = some d) : s ≠ [] ∧ ∀ b ∈ s, NumByte b := by
  unfold ofString at h
  cases hidx : indexAny s (fun c => c == 69 || c == 101) with
  | none =>
    simp only [hidx] at h
    exact mantissa_alphabet s 0 d h
  | some i =>
    simp only [hidx] at h
    obtain ⟨c0, hc0, hsplit⟩ := indexAny_split s _ i hidx
    cases hp : parseIntDigits (s.drop (i + 1)) with
    | none => simp [hp] at h
    | some e =>
      simp only [hp] at h
      by_cases hr : (e < -(2 ^ 31) || e > 2 ^ 31 - 1) = true
      · rw [if_pos hr] at h; simp at h
      · rw [if_neg hr] at h
        simp only at h
        obtain ⟨_, hm⟩ := mantissa_alphabet (s.take i) e d h
        obtain ⟨_, he⟩ := parseIntDigits_alphabet _ e hp
        refine ⟨by intro hn; rw [hn] at hsplit; simp at hsplit, fun b hb => ?_⟩
        rw [hsplit] at hb
        simp only [List.mem_append, List.mem_cons] at hb
        rcases hb with hb | rfl | hb
        · exact hm b hb
        · have : b = 69 ∨ b = 101 := by simpa using hc0
          rcases this with h1 | h1
          · exact Or.inr (Or.inr (Or.inr (Or.inr (Or.inl h1))))
          · exact Or.inr (Or.inr (Or.inr (Or.inr (Or.inr h1))))
        · rcases he b hb with h1 | h1 | h1
          · exact Or.inl h1
          · exact Or.inr (Or.inl h1)
          · exact Or.inr (Or.inr (Or.inl h1))

/-- a text that holds a byte no numeral can hold - a blank, a tab, a line break, a letter other than e / E, an underscore, a byte
    outside ASCII - is not a numeral, wherever that byte stands -/
theorem not_numeral_of_foreign_byte (s : Bytes) (b : UInt8) (hb : b ∈ s) (hf : ¬ NumByte b) : ofString s = none := by
  cases h : ofString s with
  | none => rfl
  | some d => exact absurd ((ofString_alphabet s d h).2 b hb) hf

theorem empty_not_numeral : ofString [] = none := by
  cases h : ofString [] with
  | none => rfl
  | some d => exact absurd rfl (ofString_alphabet [] d h).1

/-- the padded zeros of the C19 block are not numerals -/
example : ofString [32, 48] = none := not_numeral_of_foreign_byte _ 32 (by simp) (by simp [NumByte])
example : ofString [48, 9] = none := not_numeral_of_foreign_byte _ 9 (by simp) (by simp [NumByte])
/-- non-vacuity: `-12.50e3` is a numeral -/
example : ofString [45, 49, 50, 46, 53, 48, 101, 51] = some ⟨-1250, 1⟩ := by decide

#print axioms ofString_alphabet
#print axioms not_numeral_of_foreign_byte
#print axioms empty_not_numeral
end Mp.Dec
