import Mp.CueAstF
/-! `Mp/CueAstF.lean` (filters, `@` arguments, the cue path threaded) EXTENDS `Mp/CueAst.lean`: wherever the validator without filters
    answers, the validator with filters gives the same answer. So the theorems about `vTop` (`accepted_reads_no_blocked_field`,
    `blocked_head_never_accepted`, `vTop_key_path`) are statements about what the driver answers with either of them on the
    operations `vTop` covers. Mutual structural induction over the operation. Core-only. -/
namespace Mp
open Generated

theorem finishKeysB_nil (root : CTy) (bl : List String) (ks : List String) : finishKeysB root bl [] ks = finishKeys root bl ks := by
  unfold finishKeysB; rfl

mutual
theorem ext_path (root : CTy) (bl : List String) (top : Bool) (base : List String) (hb : top = true → base = []) (p : PathOp)
    (r : List String × (String × String)) (h : vPath root bl top p = some r) : vPathF root bl base p = some r := by
  cases p with
  | mk i isRoot f m ops us =>
    unfold vPath at h
    unfold vPathF
    by_cases hc : (!isRoot && !top) = true
    · simp [hc] at h
    · simp only [hc] at h
      have he : (if isRoot = true then ([] : List String) else base) = [] := by
        cases isRoot with
        | true => rfl
        | false =>
          cases top with
          | true => simp [hb rfl]
          | false => simp at hc
      rw [he]
      exact ext_parts root bl [] (.keys []) (fun _ _ => rfl) ops r h
termination_by structural p
theorem ext_parts (root : CTy) (bl : List String) (eb : List String) (st : PState) (hk : ∀ ks, st = .keys ks → eb = []) (ops : List PathPart)
    (r : List String × (String × String)) (h : vParts root bl st ops = some r) : vPartsF root bl eb st ops = some r := by
  cases ops with
  | nil =>
    cases st with
    | keys ks =>
      have := hk ks rfl; subst this
      simp only [vParts] at h
      simp only [vPartsF, finishKeysB_nil]
      exact h
    | calls last prev pwf e => simp only [vParts] at h; simp only [vPartsF]; exact h
    | stopped e => simp only [vParts] at h; simp only [vPartsF]; exact h
  | cons op rest =>
    cases op with
    | ident name pr us =>
      cases st with
      | keys ks =>
        have := hk ks rfl; subst this
        simp only [vParts] at h
        simp only [vPartsF]
        cases hb : bytesToString name with
        | none => simp [hb] at h
        | some n =>
          simp only [hb] at h ⊢
          exact ext_parts root bl [] (.keys (ks ++ [n])) (fun _ _ => rfl) rest r h
      | calls last prev pwf e => simp [vParts] at h
      | stopped e =>
        simp only [vParts] at h
        simp only [vPartsF]
        exact ext_parts root bl eb (.stopped e) (fun _ hh => by cases hh) rest r h
    | filter lo us => simp [vParts] at h
    | func inv nm ps us =>
      simp only [vParts] at h
      cases inv with
      | true => simp at h
      | false =>
        simp only [Bool.false_eq_true, if_false] at h
        simp only [vPartsF, Bool.false_eq_true, if_false]
        -- the call itself, met in the state (calls last prev pwf e), with the receiver's cue path cp
        have key : ∀ (cp : List String) (last : CTy) (prev : String × String) (pwf : Bool) (e : List String),
            (match (bytesToString nm).bind lookupFunc with
              | none => none
              | some fd =>
                match vParams root bl fd 0 none ps with
                | none => none
                | some perrs =>
                  vParts root bl (.calls last (funcReturns fd prev pwf last) true (e ++ (if validOnOk fd prev then [] else ["other"]) ++ perrs)) rest) = some r →
            (match (bytesToString nm).bind lookupFunc with
              | none => none
              | some fd =>
                match vParamsF root bl cp fd 0 none ps with
                | none => none
                | some perrs =>
                  vPartsF root bl cp (.calls last (funcReturns fd prev pwf last) true (e ++ (if validOnOk fd prev then [] else ["other"]) ++ perrs)) rest) = some r := by
          intro cp last prev pwf e hh
          cases hf : (bytesToString nm).bind lookupFunc with
          | none => simp [hf] at hh
          | some fd =>
            simp only [hf] at hh ⊢
            cases hp : vParams root bl fd 0 none ps with
            | none => simp [hp] at hh
            | some perrs =>
              simp only [hp] at hh
              rw [ext_params root bl cp fd 0 none ps perrs hp]
              exact ext_parts root bl cp _ (fun _ hh2 => by cases hh2) rest r hh
        cases st with
        | keys ks =>
          have := hk ks rfl; subst this
          simp only [finishKeysB_nil, List.nil_append] at h ⊢
          cases hfk : finishKeys root bl ks with
          | none => simp [hfk] at h
          | some s =>
            simp only [hfk] at h ⊢
            cases s with
            | keys ks' => simp at h
            | stopped e => exact ext_parts root bl [] (.stopped e) (fun _ hh => by cases hh) rest r h
            | calls last prev pwf e => exact key ks last prev pwf e h
        | calls last prev pwf e => exact key eb last prev pwf e h
        | stopped e => exact ext_parts root bl eb (.stopped e) (fun _ hh => by cases hh) rest r h
termination_by structural ops
theorem ext_params (root : CTy) (bl : List String) (cp : List String) (fd : FuncDesc) (i : Nat) (vp : Option Nat) (ps : List Param)
    (e : List String) (h : vParams root bl fd i vp ps = some e) : vParamsF root bl cp fd i vp ps = some e := by
  cases ps with
  | nil => simp only [vParams] at h; simp only [vParamsF]; exact h
  | cons p rest =>
    simp only [vParams] at h
    simp only [vParamsF]
    cases hp : vParam root bl p with
    | none => simp [hp] at h
    | some r =>
      obtain ⟨perrs, pty⟩ := r
      simp only [hp] at h
      rw [ext_param root bl cp p (perrs, pty) hp]
      simp only
      cases hr : vParams root bl fd (i + 1) (paramCheck fd i vp pty).2 rest with
      | none => simp [hr] at h
      | some more =>
        simp only [hr] at h
        rw [ext_params root bl cp fd (i + 1) _ rest more hr]
        exact h
termination_by structural ps
theorem ext_param (root : CTy) (bl : List String) (cp : List String) (p : Param) (r : List String × (String × String))
    (h : vParam root bl p = some r) : vParamF root bl cp p = some r := by
  cases p with
  | num d => simp only [vParam] at h; simp only [vParamF]; exact h
  | str s => simp only [vParam] at h; simp only [vParamF]; exact h
  | bool b => simp only [vParam] at h; simp only [vParamF]; exact h
  | path q => simp only [vParam] at h; simp only [vParamF]; exact ext_path root bl false cp (fun hh => by cases hh) q r h
  | logic l => simp only [vParam] at h; simp only [vParamF]; exact ext_logic root bl false cp (fun hh => by cases hh) l r h
termination_by structural p
theorem ext_logic (root : CTy) (bl : List String) (top : Bool) (cp : List String) (hb : top = true → cp = []) (l : LogicOp)
    (r : List String × (String × String)) (h : vLogic root bl top l = some r) : vLogicF root bl cp false l = some r := by
  cases l with
  | mk inv f t ops us =>
    simp only [vLogic] at h
    simp only [vLogicF]
    cases inv with
    | true => simp at h
    | false =>
      simp only [Bool.false_eq_true, if_false] at h ⊢
      cases hl : vLParts root bl top ops with
      | none => simp [hl] at h
      | some errs =>
        simp only [hl] at h
        rw [ext_lparts root bl top cp hb ops errs hl]
        exact h
termination_by structural l
theorem ext_lparts (root : CTy) (bl : List String) (top : Bool) (cp : List String) (hb : top = true → cp = []) (ops : List LogicPart)
    (e : List String) (h : vLParts root bl top ops = some e) : vLPartsF root bl cp false ops = some e := by
  cases ops with
  | nil => simp only [vLParts] at h; simp only [vLPartsF]; exact h
  | cons op rest =>
    cases op with
    | path p =>
      simp only [vLParts] at h
      simp only [vLPartsF]
      cases hp : vPath root bl top p with
      | none => simp [hp] at h
      | some r =>
        cases hr : vLParts root bl top rest with
        | none => simp [hp, hr] at h
        | some more =>
          simp only [hp, hr] at h
          rw [ext_path root bl top cp hb p r hp, ext_lparts root bl top cp hb rest more hr]
          simpa using h
    | logic l =>
      simp only [vLParts] at h
      simp only [vLPartsF]
      cases hp : vLogic root bl top l with
      | none => simp [hp] at h
      | some r =>
        cases hr : vLParts root bl top rest with
        | none => simp [hp, hr] at h
        | some more =>
          simp only [hp, hr] at h
          rw [ext_logic root bl top cp hb l r hp, ext_lparts root bl top cp hb rest more hr]
          exact h
termination_by structural ops
end

/-- **the validator with filters extends the validator without**: where `vTop` answers, `vTopF` gives the same answer -/
theorem vTopF_extends_vTop (root : CTy) (bl : List String) (t : TopOp) (r : List String × (String × String))
    (h : vTop root bl t = some r) : vTopF root bl t = some r := by
  cases t with
  | path p => exact ext_path root bl true [] (fun _ => rfl) p r h
  | logic l => exact ext_logic root bl true [] (fun _ => rfl) l r h

end Mp
