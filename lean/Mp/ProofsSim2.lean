import Mp.ProofsSim
/-! C10 (second fragment) — objects: a struct with exported fields, a pointer to such a struct, a pointer to a map and
    the map itself are the same receiver for every function that works on the object as a whole. Core-only. -/
namespace Mp

theorem zip_filter_exported (ks : List Bytes) : ∀ (vs : List GoVal), ks.length = vs.length →
    ((ks.map (fun k => (k, true))).zip vs).filter (fun p => p.1.2) = (ks.map (fun k => (k, true))).zip vs := by
  intro vs _
  apply List.filter_eq_self.mpr
  intro p hp
  have := List.of_mem_zip hp
  obtain ⟨k, _, hk⟩ := List.mem_map.mp this.1
  rw [← hk]

theorem zip_map_fst (ks : List Bytes) : ∀ (vs : List GoVal), ks.length = vs.length →
    (((ks.map (fun k => (k, true))).zip vs).map (·.1.1) = ks) ∧ (((ks.map (fun k => (k, true))).zip vs).map (·.2) = vs) := by
  induction ks with
  | nil => intro vs h; cases vs <;> simp_all
  | cons k ks ih =>
    intro vs h
    cases vs with
    | nil => simp at h
    | cons v vs =>
      have := ih vs (by simpa using h)
      simp [this.1, this.2]

/-- a struct whose fields are all exported is, for whole-object functions, the map of its fields -/
theorem objectAsMap_struct (ks : List Bytes) (vs : List GoVal) (h : ks.length = vs.length) :
    objectAsMap (.struct (ks.map (fun k => (k, true))) vs) = .map .str false ks vs := by
  unfold objectAsMap
  simp only [zip_filter_exported ks vs h, (zip_map_fst ks vs h).1, (zip_map_fst ks vs h).2]

/-- … and so is a pointer to it -/
theorem objectAsMap_ptr_struct (ks : List Bytes) (vs : List GoVal) (h : ks.length = vs.length) :
    objectAsMap (.ptr false (.struct (ks.map (fun k => (k, true))) vs)) = .map .str false ks vs := by
  unfold objectAsMap
  rw [objectAsMap_struct ks vs h]

/-- a map reached through a pointer is the map itself -/
theorem objectAsMap_ptr_map (kk : KeyKind) (n : Bool) (ks : List Bytes) (vs : List GoVal) :
    objectAsMap (.ptr false (.map kk n ks vs)) = .map kk n ks vs := by
  unfold objectAsMap
  simp [objectAsMap]

/-- normalisation leaves objects alone -/
theorem normalize_struct (ns : List (Bytes × Bool)) (vs : List GoVal) : normalizeValue (.struct ns vs) = .struct ns vs := by
  simp [normalizeValue]
theorem normalize_map (kk : KeyKind) (n : Bool) (ks : List Bytes) (vs : List GoVal) : normalizeValue (.map kk n ks vs) = .map kk n ks vs := by
  simp [normalizeValue]

/-- **C10 for whole-object functions**: the receiver every function sees is the same for the struct carrier and for the
    map carrier of one object, hence so is the outcome of every modelled function (Sum, IsEmpty, RemoveKeysBy*, Any …) -/
theorem object_receiver_carrier_independent (nm : String) (ps : List Prm) (ks : List Bytes) (vs : List GoVal) (h : ks.length = vs.length) :
    pureFunc nm ps (toDecimalIfNumber (objectAsMap (normalizeValue (.struct (ks.map (fun k => (k, true))) vs)))) =
    pureFunc nm ps (toDecimalIfNumber (objectAsMap (normalizeValue (.map .str false ks vs)))) := by
  rw [normalize_struct, normalize_map, objectAsMap_struct ks vs h]
  simp [objectAsMap]

#print axioms object_receiver_carrier_independent
#print axioms objectAsMap_ptr_map
#print axioms objectAsMap_ptr_struct
end Mp
