import Mp.CueAst
import Mp.CueDeps
import Mp.CueWalk
/-! C15 / C13 on the validator model that runs on the parsed operation (`Mp/CueAst.lean`): a path that starts at a blocked root
    field is rejected as not available WHATEVER follows the first key - further keys, calls with any arguments - and nothing after
    the rejected key path is looked at; the verdict line is `REJ blocked`. (The statement for `$` paths at any depth of arguments and
    groups is `Mp.rejected_wherever` on the walk of `Mp/CueWalk.lean`, which the driver evaluates on the same query text.) -/
namespace Mp
open Generated

theorem finishKeys_blocked (root : CTy) (bl : List String) (k : String) (ks : List String) (h : k ∈ bl) :
    finishKeys root bl (k :: ks) = some (.stopped ["blocked"]) := by
  unfold finishKeys
  simp only [blocked_first_key_rejected root bl k ks h]

/-- once the key path is rejected the rest of the path adds nothing and removes nothing -/
theorem stopped_keeps (root : CTy) (bl : List String) (errs : List String) :
    ∀ (rest : List PathPart) (r : List String × (String × String)), vParts root bl (.stopped errs) rest = some r → r.1 = errs := by
  intro rest
  induction rest with
  | nil => intro r h; simp only [vParts, Option.some.injEq] at h; rw [← h]
  | cons op rest ih =>
    intro r h
    cases op with
    | ident n pr us => simp only [vParts] at h; exact ih r h
    | filter lo us => simp [vParts] at h
    | func inv n ps us =>
      simp only [vParts] at h
      cases inv with
      | true => simp at h
      | false => simp only [Bool.false_eq_true, if_false] at h; exact ih r h

/-- a key path whose first key is blocked: whatever keys and calls follow, the errors are exactly "not available" -/
theorem keys_blocked (root : CTy) (bl : List String) (k : String) (hk : k ∈ bl) :
    ∀ (rest : List PathPart) (ks : List String) (r : List String × (String × String)),
      vParts root bl (.keys (k :: ks)) rest = some r → r.1 = ["blocked"] := by
  intro rest
  induction rest with
  | nil =>
    intro ks r h
    simp only [vParts, finishKeys_blocked root bl k ks hk, Option.some.injEq] at h
    rw [← h]
  | cons op rest ih =>
    intro ks r h
    cases op with
    | ident n pr us =>
      simp only [vParts] at h
      cases hb : bytesToString n with
      | none => simp [hb] at h
      | some s => simp only [hb, List.cons_append] at h; exact ih (ks ++ [s]) r h
    | filter lo us => simp [vParts] at h
    | func inv n ps us =>
      simp only [vParts] at h
      cases inv with
      | true => simp at h
      | false =>
        simp only [Bool.false_eq_true, if_false, finishKeys_blocked root bl k ks hk] at h
        exact stopped_keeps root bl ["blocked"] rest r h

/-- **C15**: a `$` path (or a top-level `@` path) whose first key is a blocked root field is never accepted: where the model
    answers at all, the errors it reports are exactly "not available" -/
theorem blocked_head_errs (root : CTy) (bl : List String) (top : Bool) (i isRoot f m pr : Bool) (name us us' : Bytes) (rest : List PathPart)
    (n : String) (hn : bytesToString name = some n) (hb : n ∈ bl) (hr : isRoot = true ∨ top = true)
    (r : List String × (String × String))
    (h : vPath root bl top (.mk i isRoot f m (.ident name pr us :: rest) us') = some r) : r.1 = ["blocked"] := by
  have h2 : vParts root bl (.keys [n]) rest = some r := by
    unfold vPath at h
    have hc : (!isRoot && !top) = false := by rcases hr with h1 | h1 <;> simp [h1]
    simp only [hc, Bool.false_eq_true, if_false, vParts, hn, List.nil_append] at h
    exact h
  exact keys_blocked root bl n hb rest [] r h2

/-- ... so the verdict line is `REJ blocked` -/
theorem blocked_head_never_accepted (root : CTy) (bl : List String) (top : Bool) (i isRoot f m pr : Bool) (name us us' : Bytes) (rest : List PathPart)
    (n : String) (hn : bytesToString name = some n) (hb : n ∈ bl) (hr : isRoot = true ∨ top = true)
    (r : List String × (String × String))
    (h : vPath root bl top (.mk i isRoot f m (.ident name pr us :: rest) us') = some r) :
    verdictOf (some r) = some "REJ blocked" := by
  have h3 := blocked_head_errs root bl top i isRoot f m pr name us us' rest n hn hb hr r h
  obtain ⟨errs, ty⟩ := r
  simp only at h3
  subst h3
  rfl

/-- an accepted query does not start at a blocked root field -/
theorem accepted_head_not_blocked (root : CTy) (bl : List String) (i f m pr : Bool) (name us us' : Bytes) (rest : List PathPart)
    (n : String) (hn : bytesToString name = some n) (ty : String × String)
    (h : vTop root bl (.path (.mk i true f m (.ident name pr us :: rest) us')) = some ([], ty)) : n ∉ bl := by
  intro hb
  have := blocked_head_errs root bl true i true f m pr name us us' rest n hn hb (Or.inl rfl) ([], ty) (by simpa [vTop] using h)
  simp at this


/-! ### an accepted query reads no blocked root field through any `$` path, at any depth

    `dhTop` (Mp/CueWalk.lean) lists the first keys of the `$` paths of an operation wherever they stand. If the validator model
    accepts the operation (no error anywhere), none of them is blocked. Mutual structural induction over the operation; the
    errors of a path only ever grow along the walk, so "no error at the end" means no error at any argument on the way. -/

/-- no key of the list is blocked -/
def NoneBlocked (bl : List String) (l : List Bytes) : Prop := ∀ k ∈ l, ∀ n, bytesToString k = some n → n ∉ bl

theorem noneBlocked_nil (bl : List String) : NoneBlocked bl [] := by intro k hk; simp at hk
theorem noneBlocked_append {bl : List String} {a b : List Bytes} (ha : NoneBlocked bl a) (hb : NoneBlocked bl b) : NoneBlocked bl (a ++ b) := by
  intro k hk n hn
  rcases List.mem_append.1 hk with h | h
  · exact ha k h n hn
  · exact hb k h n hn

/-- what `vParts` accepted says about the state it started from and the operations it walked -/
def PartsOK (bl : List String) (st : PState) (ops : List PathPart) : Prop :=
  match st with
  | .stopped e => e = []
  | .keys _ => NoneBlocked bl (dhParts ops)
  | .calls _ _ _ e => e = [] ∧ NoneBlocked bl (dhParts ops)

theorem finishKeys_stopped_ne (root : CTy) (bl : List String) (ks : List String) (e : List String)
    (h : finishKeys root bl ks = some (.stopped e)) : e ≠ [] := by
  unfold finishKeys at h
  cases ks with
  | nil => simp at h
  | cons k ks =>
    simp only at h
    cases hv : validateKeys root bl (k :: ks) [] none true with
    | rej c => simp only [hv, Option.some.injEq, PState.stopped.injEq] at h; rw [← h]; simp
    | err => simp [hv] at h
    | acc t io =>
      simp only [hv] at h
      cases hf : findValueAtPath root (k :: ks) with
      | none => simp [hf] at h
      | some v => simp [hf] at h

theorem finishKeys_not_keys (root : CTy) (bl : List String) (ks ks' : List String) : finishKeys root bl ks ≠ some (.keys ks') := by
  unfold finishKeys
  cases ks with
  | nil => simp
  | cons k ks =>
    simp only
    cases validateKeys root bl (k :: ks) [] none true with
    | rej c => simp
    | err => simp
    | acc t io => cases findValueAtPath root (k :: ks) <;> simp

theorem finishKeys_calls (root : CTy) (bl : List String) (ks : List String) (last : CTy) (prev : String × String) (pwf : Bool) (e : List String)
    (h : finishKeys root bl ks = some (.calls last prev pwf e)) : e = [] := by
  unfold finishKeys at h
  cases ks with
  | nil => simp at h
  | cons k ks =>
    simp only at h
    cases hv : validateKeys root bl (k :: ks) [] none true with
    | rej c => simp [hv] at h
    | err => simp [hv] at h
    | acc t io =>
      simp only [hv] at h
      cases hf : findValueAtPath root (k :: ks) with
      | none => simp [hf] at h
      | some v => simp only [hf, Option.some.injEq, PState.calls.injEq] at h; exact h.2.2.2.symm

theorem append_eq_nil3 {α} {a b c : List α} (h : a ++ b ++ c = []) : a = [] ∧ b = [] ∧ c = [] := by
  have h1 := List.append_eq_nil_iff.1 h
  have h2 := List.append_eq_nil_iff.1 h1.1
  exact ⟨h2.1, h2.2, h1.2⟩

mutual
theorem acc_path (root : CTy) (bl : List String) (top : Bool) (p : PathOp) (ty : String × String)
    (h : vPath root bl top p = some ([], ty)) : NoneBlocked bl (dhPath p) := by
  cases p with
  | mk i isRoot f m ops us =>
    unfold vPath at h
    by_cases hc : (!isRoot && !top) = true
    · simp [hc] at h
    · simp only [hc] at h
      have hparts := acc_parts root bl (.keys []) ops ty h
      unfold dhPath
      apply noneBlocked_append
      · -- the head of a `$` path
        cases isRoot with
        | false => simp only [Bool.false_eq_true, if_false]; exact noneBlocked_nil bl
        | true =>
          simp only [if_true]
          intro k hk n hn
          have hk' : firstKey ops = some k := by simpa using hk
          cases ops with
          | nil => simp [firstKey] at hk'
          | cons op rest =>
            cases op with
            | ident name pr us2 =>
              simp only [firstKey, Option.some.injEq] at hk'
              subst hk'
              intro hb
              simp only [vParts, hn, List.nil_append] at h
              have := keys_blocked root bl n hb rest [] ([], ty) h
              simp at this
            | filter lo us2 => simp [vParts] at h
            | func inv nm ps us2 =>
              simp only [vParts] at h
              cases inv with
              | true => simp at h
              | false => simp [finishKeys] at h
      · exact hparts
termination_by structural p
theorem acc_parts (root : CTy) (bl : List String) (st : PState) (ops : List PathPart) (ty : String × String)
    (h : vParts root bl st ops = some ([], ty)) : PartsOK bl st ops := by
  cases ops with
  | nil =>
    cases st with
    | keys ks => exact noneBlocked_nil bl
    | calls last prev pwf e =>
      simp only [vParts, Option.some.injEq, Prod.mk.injEq] at h
      exact ⟨h.1, noneBlocked_nil bl⟩
    | stopped e =>
      simp only [vParts, Option.some.injEq, Prod.mk.injEq] at h
      exact h.1
  | cons op rest =>
    cases op with
    | ident name pr us =>
      cases st with
      | keys ks =>
        simp only [vParts] at h
        cases hb : bytesToString name with
        | none => simp [hb] at h
        | some n =>
          simp only [hb] at h
          have := acc_parts root bl (.keys (ks ++ [n])) rest ty h
          simpa [PartsOK, dhParts] using this
      | calls last prev pwf e => simp [vParts] at h
      | stopped e =>
        simp only [vParts] at h
        exact acc_parts root bl (.stopped e) rest ty h
    | filter lo us => simp [vParts] at h
    | func inv nm ps us =>
      simp only [vParts] at h
      cases inv with
      | true => simp at h
      | false =>
        simp only [Bool.false_eq_true, if_false] at h
        -- the state in which the call is met
        have key : ∀ (last : CTy) (prev : String × String) (pwf : Bool) (e : List String),
            (match (bytesToString nm).bind lookupFunc with
              | none => none
              | some fd =>
                match vParams root bl fd 0 none ps with
                | none => none
                | some perrs =>
                  vParts root bl (.calls last (funcReturns fd prev pwf last) true (e ++ (if validOnOk fd prev then [] else ["other"]) ++ perrs)) rest) = some ([], ty) →
            e = [] ∧ NoneBlocked bl (dhParts (.func false nm ps us :: rest)) := by
          intro last prev pwf e hh
          cases hf : (bytesToString nm).bind lookupFunc with
          | none => simp [hf] at hh
          | some fd =>
            simp only [hf] at hh
            cases hp : vParams root bl fd 0 none ps with
            | none => simp [hp] at hh
            | some perrs =>
              simp only [hp] at hh
              have ih := acc_parts root bl _ rest ty hh
              simp only [PartsOK] at ih
              obtain ⟨he, hrest⟩ := ih
              obtain ⟨h1, _, h3⟩ := append_eq_nil3 he
              subst h3
              refine ⟨h1, ?_⟩
              unfold dhParts
              exact noneBlocked_append (acc_params root bl fd 0 none ps hp) hrest
        cases st with
        | keys ks =>
          simp only at h
          cases hfk : finishKeys root bl ks with
          | none => simp [hfk] at h
          | some s =>
            simp only [hfk] at h
            cases s with
            | keys ks' => exact absurd hfk (finishKeys_not_keys root bl ks ks')
            | stopped e =>
              simp only at h
              have he := acc_parts root bl (.stopped e) rest ty h
              simp only [PartsOK] at he
              exact absurd he (finishKeys_stopped_ne root bl ks e hfk)
            | calls last prev pwf e =>
              simp only at h
              exact (key last prev pwf e h).2
        | calls last prev pwf e =>
          simp only at h
          exact key last prev pwf e h
        | stopped e =>
          simp only at h
          exact acc_parts root bl (.stopped e) rest ty h
termination_by structural ops
theorem acc_params (root : CTy) (bl : List String) (fd : FuncDesc) (i : Nat) (vp : Option Nat) (ps : List Param)
    (h : vParams root bl fd i vp ps = some []) : NoneBlocked bl (dhParams ps) := by
  cases ps with
  | nil => exact noneBlocked_nil bl
  | cons p rest =>
    simp only [vParams] at h
    cases hp : vParam root bl p with
    | none => simp [hp] at h
    | some r =>
      obtain ⟨perrs, pty⟩ := r
      simp only [hp] at h
      cases hr : vParams root bl fd (i + 1) (paramCheck fd i vp pty).2 rest with
      | none => simp [hr] at h
      | some more =>
        simp only [hr, Option.some.injEq] at h
        have h1 := List.append_eq_nil_iff.1 h
        have hmore : more = [] := h1.2
        have hperrs : perrs = [] := by
          cases perrs with
          | nil => rfl
          | cons a as => simp at h1
        subst hmore; subst hperrs
        have hrest := acc_params root bl fd (i + 1) _ rest hr
        have hparam := acc_param root bl p pty hp
        cases p with
        | num d => simpa [dhParams] using hrest
        | str s => simpa [dhParams] using hrest
        | bool b => simpa [dhParams] using hrest
        | path q => unfold dhParams; exact noneBlocked_append hparam hrest
        | logic l => unfold dhParams; exact noneBlocked_append hparam hrest
termination_by structural ps
theorem acc_param (root : CTy) (bl : List String) (p : Param) (ty : String × String)
    (h : vParam root bl p = some ([], ty)) :
    NoneBlocked bl (match p with | .path q => dhPath q | .logic l => dhLogic l | _ => []) := by
  cases p with
  | num d => exact noneBlocked_nil bl
  | str s => exact noneBlocked_nil bl
  | bool b => exact noneBlocked_nil bl
  | path q => simp only [vParam] at h; exact acc_path root bl false q ty h
  | logic l => simp only [vParam] at h; exact acc_logic root bl false l ty h
termination_by structural p
theorem acc_logic (root : CTy) (bl : List String) (top : Bool) (l : LogicOp) (ty : String × String)
    (h : vLogic root bl top l = some ([], ty)) : NoneBlocked bl (dhLogic l) := by
  cases l with
  | mk inv f t ops us =>
    simp only [vLogic] at h
    cases inv with
    | true => simp at h
    | false =>
      simp only [Bool.false_eq_true, if_false] at h
      cases hl : vLParts root bl top ops with
      | none => simp [hl] at h
      | some errs =>
        simp only [hl, Option.some.injEq, Prod.mk.injEq] at h
        obtain ⟨he, _⟩ := h
        subst he
        unfold dhLogic
        exact acc_lparts root bl top ops hl
termination_by structural l
theorem acc_lparts (root : CTy) (bl : List String) (top : Bool) (ops : List LogicPart)
    (h : vLParts root bl top ops = some []) : NoneBlocked bl (dhLParts ops) := by
  cases ops with
  | nil => exact noneBlocked_nil bl
  | cons op rest =>
    cases op with
    | path p =>
      simp only [vLParts] at h
      cases hp : vPath root bl top p with
      | none => simp [hp] at h
      | some r =>
        obtain ⟨errs, pty⟩ := r
        cases hr : vLParts root bl top rest with
        | none => simp [hp, hr] at h
        | some more =>
          simp only [hp, hr, Option.some.injEq] at h
          have h1 := List.append_eq_nil_iff.1 h
          have hmore : more = [] := h1.2
          have herrs : errs = [] := by
            cases errs with
            | nil => rfl
            | cons a as => simp at h1
          subst hmore; subst herrs
          unfold dhLParts
          exact noneBlocked_append (acc_path root bl top p pty hp) (acc_lparts root bl top rest hr)
    | logic l =>
      simp only [vLParts] at h
      cases hp : vLogic root bl top l with
      | none => simp [hp] at h
      | some r =>
        obtain ⟨errs, pty⟩ := r
        cases hr : vLParts root bl top rest with
        | none => simp [hp, hr] at h
        | some more =>
          simp only [hp, hr, Option.some.injEq] at h
          have h1 := List.append_eq_nil_iff.1 h
          have hmore : more = [] := h1.2
          have herrs : errs = [] := h1.1
          subst hmore; subst herrs
          unfold dhLParts
          exact noneBlocked_append (acc_logic root bl top l pty hp) (acc_lparts root bl top rest hr)
termination_by structural ops
end

/-- **C15**: a query the validator model accepts reads no blocked root field through any `$` path, at any depth of arguments and groups -/
theorem accepted_reads_no_blocked_field (root : CTy) (bl : List String) (t : TopOp) (ty : String × String)
    (h : vTop root bl t = some ([], ty)) : NoneBlocked bl (dhTop t) := by
  cases t with
  | path p => exact acc_path root bl true p ty h
  | logic l => exact acc_logic root bl true l ty h

end Mp

/-! ### on key paths the validator on the operation IS the key-path validator of `Mp/Cue.lean`

    so everything proved about `validateKeys` / `validate` (C13: `validate_walk` - the loop equals the recursive walk of the schema,
    `validateSteps_keys`; C15: `blocked_iff`, `offered_coherent`) is a statement about `vTop` on queries that are key paths. -/
namespace Mp

theorem validateKeys_acc_found (root : CTy) (bl : List String) : ∀ (ks p : List String) (cur : Option (String × String)) (first : Bool) (t io : String),
    ks ≠ [] → validateKeys root bl ks p cur first = .acc t io → (findValueAtPath root (p ++ ks)).isSome = true := by
  intro ks
  induction ks with
  | nil => intro p cur first t io h; exact absurd rfl h
  | cons k rest ih =>
    intro p cur first t io _ h
    unfold validateKeys at h
    simp only at h
    split at h
    · next r hr => subst h; split at hr <;> (try split at hr) <;> simp at hr
    · split at h
      · simp at h
      · cases hf : findValueAtPath root (p ++ [k]) with
        | none => simp [hf] at h
        | some v =>
          simp only [hf] at h
          cases hk : kindOf v with
          | none => simp [hk] at h
          | some ti =>
            simp only [hk] at h
            cases rest with
            | nil => simp [hf]
            | cons k2 rest2 =>
              have := ih (p ++ [k]) (some ti) false t io (by simp) h
              simpa [List.append_assoc] using this

def keyPartsOf (names : List Bytes) : List PathPart := names.map (fun n => PathPart.ident n false [])

theorem vParts_idents (root : CTy) (bl : List String) : ∀ (names : List Bytes) (strs ks0 : List String),
    names.map bytesToString = strs.map some →
    vParts root bl (.keys ks0) (keyPartsOf names) = vParts root bl (.keys (ks0 ++ strs)) [] := by
  intro names
  induction names with
  | nil => intro strs ks0 h; cases strs with
    | nil => simp [keyPartsOf]
    | cons s ss => simp at h
  | cons n ns ih =>
    intro strs ks0 h
    cases strs with
    | nil => simp at h
    | cons s ss =>
      simp only [List.map_cons, List.cons.injEq] at h
      have e : keyPartsOf (n :: ns) = .ident n false [] :: keyPartsOf ns := by simp [keyPartsOf]
      rw [e]
      simp only [vParts, h.1]
      rw [ih ss (ks0 ++ [s]) h.2]
      have e2 : (ks0 ++ [s]) ++ ss = ks0 ++ s :: ss := by simp
      rw [e2]
      simp only [vParts]

/-- **C13 / C15**: a `$` path of keys is validated by the operation model exactly as `validateKeys` validates the keys -/
theorem vTop_key_path (root : CTy) (bl : List String) (i f m : Bool) (us : Bytes) (names : List Bytes) (strs : List String)
    (hne : strs ≠ []) (h : names.map bytesToString = strs.map some) :
    vTop root bl (.path (.mk i true f m (keyPartsOf names) us)) =
      match validateKeys root bl strs [] none true with
      | .acc t io => some ([], (t, io))
      | .rej c => some ([c], ("", ""))
      | .err => none := by
  simp only [vTop, vPath, Bool.not_true, Bool.false_and, Bool.false_eq_true, if_false]
  rw [vParts_idents root bl names strs [] h]
  simp only [List.nil_append, vParts]
  cases strs with
  | nil => exact absurd rfl hne
  | cons s ss =>
    unfold finishKeys
    simp only
    cases hv : validateKeys root bl (s :: ss) [] none true with
    | rej c => simp
    | err => simp
    | acc t io =>
      simp only
      have := validateKeys_acc_found root bl (s :: ss) [] none true t io (by simp) hv
      simp only [List.nil_append] at this
      cases hf : findValueAtPath root (s :: ss) with
      | none => simp [hf] at this
      | some v => simp

end Mp

/-! ### too many arguments: a call of a function without a variadic parameter that is given more literal arguments than the
    descriptor declares is rejected by the validator on the operation (C14, the over-long clause, for every descriptor) -/
namespace Mp
open Generated

def isLitParam : Param → Bool | .num _ => true | .str _ => true | .bool _ => true | _ => false

theorem vParam_lit (root : CTy) (bl : List String) (p : Param) (h : isLitParam p = true) : ∃ pty, vParam root bl p = some ([], pty) := by
  cases p <;> simp [isLitParam] at h <;> simp [vParam]

theorem paramCheck_keeps_none (fd : FuncDesc) (hv : ∀ q ∈ fd.params, q.2 ≠ "Variadic") (i : Nat) (pty : String × String) :
    (paramCheck fd i none pty).2 = none := by
  unfold paramCheck
  simp only [Option.getD_none]
  cases hq : fd.params[i]? with
  | none => rfl
  | some pd =>
    have hm : pd ∈ fd.params := List.mem_of_getElem? hq
    have := hv pd hm
    simp [this]

theorem vParams_lits_some (root : CTy) (bl : List String) (fd : FuncDesc) (hv : ∀ q ∈ fd.params, q.2 ≠ "Variadic") :
    ∀ (ps : List Param) (i : Nat), (∀ p ∈ ps, isLitParam p = true) → ∃ e, vParams root bl fd i none ps = some e := by
  intro ps
  induction ps with
  | nil => intro i _; exact ⟨[], by simp [vParams]⟩
  | cons p rest ih =>
    intro i hl
    obtain ⟨pty, hp⟩ := vParam_lit root bl p (hl p (by simp))
    obtain ⟨more, hm⟩ := ih (i + 1) (fun q hq => hl q (by simp [hq]))
    refine ⟨(if ([] : List String).isEmpty then (paramCheck fd i none pty).1 else []) ++ more, ?_⟩
    have h2 := paramCheck_keeps_none fd hv i pty
    simp only [vParams, hp]
    rw [show paramCheck fd i none pty = ((paramCheck fd i none pty).1, (paramCheck fd i none pty).2) from rfl]
    simp only [h2, hm]

/-- **C14**: more literal arguments than the descriptor declares (no variadic parameter): some argument is in error -/
theorem over_long_literals_rejected (root : CTy) (bl : List String) (fd : FuncDesc) (hv : ∀ q ∈ fd.params, q.2 ≠ "Variadic") :
    ∀ (ps : List Param) (i : Nat), (∀ p ∈ ps, isLitParam p = true) → i ≤ fd.params.length → fd.params.length < i + ps.length →
      ∃ e, vParams root bl fd i none ps = some e ∧ e ≠ [] := by
  intro ps
  induction ps with
  | nil => intro i _ hi hlen; simp at hlen; omega
  | cons p rest ih =>
    intro i hl hi0 hlen
    obtain ⟨pty, hp⟩ := vParam_lit root bl p (hl p (by simp))
    obtain ⟨more, hm⟩ := vParams_lits_some root bl fd hv rest (i + 1) (fun q hq => hl q (by simp [hq]))
    have h2 := paramCheck_keeps_none fd hv i pty
    have hstep : vParams root bl fd i none (p :: rest) = some ((paramCheck fd i none pty).1 ++ more) := by
      simp only [vParams, hp]
      rw [show paramCheck fd i none pty = ((paramCheck fd i none pty).1, (paramCheck fd i none pty).2) from rfl]
      simp only [h2, hm]
      rfl
    by_cases hi : fd.params.length ≤ i
    · -- this argument is itself beyond the declared ones
      have hq : fd.params[i]? = none := List.getElem?_eq_none hi
      have hc : (paramCheck fd i none pty).1 = ["other"] := by simp [paramCheck, hq]
      exact ⟨_, hstep, by simp [hc]⟩
    · have hlen' : fd.params.length < (i + 1) + rest.length := by simp at hlen; omega
      obtain ⟨e, he, hne⟩ := ih (i + 1) (fun q hq => hl q (by simp [hq])) (by omega) hlen'
      rw [hm] at he
      have : more = e := by simpa using he
      subst this
      exact ⟨_, hstep, by simp [hne]⟩

end Mp
