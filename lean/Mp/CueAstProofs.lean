import Mp.CueAst
import Mp.CueDeps
/-! C15 / C13 on the validator model that runs on the parsed operation (`Mp/CueAst.lean`): a path that starts at a blocked root
    field is rejected as not available WHATEVER follows the first key - further keys, calls with any arguments - and nothing after
    the rejected key path is looked at; the verdict line is `REJ blocked`. (The statement for `$` paths at any depth of arguments and
    groups is `Mp.rejected_wherever` on the walk of `Mp/CueWalk.lean`, which the driver evaluates on the same query text.) -/
namespace Mp
open Generated

theorem finishKeys_blocked (root : CTy) (bl : List String) (k : String) (ks : List String) (h : k ∈ bl) :
    finishKeys root bl (k :: ks) = some (.stopped ["blocked"]) := by
  unfold finishKeys
  simp only [blocked_first_key_rejected root bl k ks h]

/-- once the key path is rejected the rest of the path adds nothing and removes nothing -/
theorem stopped_keeps (root : CTy) (bl : List String) (errs : List String) :
    ∀ (rest : List PathPart) (r : List String × (String × String)), vParts root bl (.stopped errs) rest = some r → r.1 = errs := by
  intro rest
  induction rest with
  | nil => intro r h; simp only [vParts, Option.some.injEq] at h; rw [← h]
  | cons op rest ih =>
    intro r h
    cases op with
    | ident n pr us => simp only [vParts] at h; exact ih r h
    | filter lo us => simp [vParts] at h
    | func inv n ps us =>
      simp only [vParts] at h
      cases inv with
      | true => simp at h
      | false => simp only [Bool.false_eq_true, if_false] at h; exact ih r h

/-- a key path whose first key is blocked: whatever keys and calls follow, the errors are exactly "not available" -/
theorem keys_blocked (root : CTy) (bl : List String) (k : String) (hk : k ∈ bl) :
    ∀ (rest : List PathPart) (ks : List String) (r : List String × (String × String)),
      vParts root bl (.keys (k :: ks)) rest = some r → r.1 = ["blocked"] := by
  intro rest
  induction rest with
  | nil =>
    intro ks r h
    simp only [vParts, finishKeys_blocked root bl k ks hk, Option.some.injEq] at h
    rw [← h]
  | cons op rest ih =>
    intro ks r h
    cases op with
    | ident n pr us =>
      simp only [vParts] at h
      cases hb : bytesToString n with
      | none => simp [hb] at h
      | some s => simp only [hb, List.cons_append] at h; exact ih (ks ++ [s]) r h
    | filter lo us => simp [vParts] at h
    | func inv n ps us =>
      simp only [vParts] at h
      cases inv with
      | true => simp at h
      | false =>
        simp only [Bool.false_eq_true, if_false, finishKeys_blocked root bl k ks hk] at h
        exact stopped_keeps root bl ["blocked"] rest r h

/-- **C15**: a `$` path (or a top-level `@` path) whose first key is a blocked root field is never accepted: where the model
    answers at all, the errors it reports are exactly "not available" -/
theorem blocked_head_errs (root : CTy) (bl : List String) (top : Bool) (i isRoot f m pr : Bool) (name us us' : Bytes) (rest : List PathPart)
    (n : String) (hn : bytesToString name = some n) (hb : n ∈ bl) (hr : isRoot = true ∨ top = true)
    (r : List String × (String × String))
    (h : vPath root bl top (.mk i isRoot f m (.ident name pr us :: rest) us') = some r) : r.1 = ["blocked"] := by
  have h2 : vParts root bl (.keys [n]) rest = some r := by
    unfold vPath at h
    have hc : (!isRoot && !top) = false := by rcases hr with h1 | h1 <;> simp [h1]
    simp only [hc, Bool.false_eq_true, if_false, vParts, hn, List.nil_append] at h
    exact h
  exact keys_blocked root bl n hb rest [] r h2

/-- ... so the verdict line is `REJ blocked` -/
theorem blocked_head_never_accepted (root : CTy) (bl : List String) (top : Bool) (i isRoot f m pr : Bool) (name us us' : Bytes) (rest : List PathPart)
    (n : String) (hn : bytesToString name = some n) (hb : n ∈ bl) (hr : isRoot = true ∨ top = true)
    (r : List String × (String × String))
    (h : vPath root bl top (.mk i isRoot f m (.ident name pr us :: rest) us') = some r) :
    verdictOf (some r) = some "REJ blocked" := by
  have h3 := blocked_head_errs root bl top i isRoot f m pr name us us' rest n hn hb hr r h
  obtain ⟨errs, ty⟩ := r
  simp only at h3
  subst h3
  rfl

/-- an accepted query does not start at a blocked root field -/
theorem accepted_head_not_blocked (root : CTy) (bl : List String) (i f m pr : Bool) (name us us' : Bytes) (rest : List PathPart)
    (n : String) (hn : bytesToString name = some n) (ty : String × String)
    (h : vTop root bl (.path (.mk i true f m (.ident name pr us :: rest) us')) = some ([], ty)) : n ∉ bl := by
  intro hb
  have := blocked_head_errs root bl true i true f m pr name us us' rest n hn hb (Or.inl rfl) ([], ty) (by simpa [vTop] using h)
  simp at this

end Mp
