import Mp.Print
/-! Prototype: GetRootFieldsAccessed and AddressedPaths (repaired versions) on the model AST. -/
namespace Mp

def insertSortedB (p : Bytes) : List Bytes → List Bytes
  | [] => [p]
  | q :: qs => if p == q then q :: qs else if bytesLtA p q then p :: q :: qs else q :: insertSortedB p qs
where bytesLtA : Bytes → Bytes → Bool
  | [], [] => false
  | [], _ :: _ => true
  | _ :: _, [] => false
  | a :: as, b :: bs => if a < b then true else if a > b then false else bytesLtA as bs

def sortUniq (l : List Bytes) : List Bytes := l.foldl (fun acc x => insertSortedB x acc) []

mutual
def rootPath : PathOp → List Bytes
  | .mk _ _ isFilter _ ops _ => rootParts isFilter false ops
/-- returns the accessed names contributed by the parts; `seen` = an identifier was already taken -/
def rootParts (isFilter seen : Bool) : List PathPart → List Bytes
  | [] => []
  | .ident name _ _ :: rest =>
    if !seen && !isFilter then name :: rootParts isFilter true rest else rootParts isFilter seen rest
  | .filter lo _ :: rest => rootLogic lo ++ rootParts isFilter seen rest
  | .func _ _ params _ :: rest => rootParams params ++ rootParts isFilter seen rest
def rootParams : List Param → List Bytes
  | [] => []
  | .path p :: rest => rootPath p ++ rootParams rest
  | .logic l :: rest => rootLogic l ++ rootParams rest
  | _ :: rest => rootParams rest
def rootLogic : LogicOp → List Bytes
  | .mk _ _ _ ops _ => rootLogicParts ops
def rootLogicParts : List LogicPart → List Bytes
  | [] => []
  | .path p :: rest => rootPath p ++ rootLogicParts rest
  | .logic l :: rest => rootLogic l ++ rootLogicParts rest
end

def isPrefixOfSome (val : List Bytes) (ret : List (List Bytes)) : Bool := ret.any (fun r => val.isPrefixOf r && !val.isEmpty)

def dedupPaths (l : List (List Bytes)) : List (List Bytes) :=
  l.foldl (fun ret val => if !ret.contains val && !isPrefixOfSome val ret && !val.isEmpty then ret ++ [val] else ret) []

/-! AddressedPaths: `addressedPathsOf` collects every chain with a mark saying whether it starts at the root of the data (a `$`
    path); a filter puts the chain of the collection in front of the unmarked chains of its conditions only; the
    de-duplication loop runs once, over everything collected. -/
mutual
def apPath : PathOp → List (List Bytes × Bool)
  | .mk _ root _ _ ops _ => match ops with
    | [] => []
    | _ => apParts root [] ops
def apParts (root : Bool) (idents : List Bytes) : List PathPart → List (List Bytes × Bool)
  | [] => [(idents, root)]
  | .ident name _ _ :: rest => apParts root (idents ++ [name]) rest
  | .filter lo _ :: rest => (apLogic lo).map (fun v => if v.2 then v else (idents ++ v.1, root)) ++ apParts root idents rest
  | .func _ _ params _ :: rest => apParams params ++ apParts root idents rest
def apParams : List Param → List (List Bytes × Bool)
  | [] => []
  | .path p :: rest => apPath p ++ apParams rest
  | .logic l :: rest => apLogic l ++ apParams rest
  | _ :: rest => apParams rest
def apLogic : LogicOp → List (List Bytes × Bool)
  | .mk _ _ _ ops _ => apLogicParts ops
def apLogicParts : List LogicPart → List (List Bytes × Bool)
  | [] => []
  | .path p :: rest => apPath p ++ apLogicParts rest
  | .logic l :: rest => apLogic l ++ apLogicParts rest
end

def apTop : TopOp → List (List Bytes × Bool)
  | .path p => apPath p
  | .logic l => apLogic l

def addrTop (t : TopOp) : List (List Bytes) := dedupPaths ((apTop t).map (·.1))

def rootTop : TopOp → List Bytes
  | .path p => sortUniq (rootPath p)
  | .logic l => sortUniq (rootLogic l)

def handleAnalysis (T : Tables) (line : String) : String :=
  let src := unhex line
  match (parse T src).1 with
  | .op t =>
    let r := ",".intercalate ((rootTop t).map hex)
    let a := "|".intercalate ((addrTop t).map fun p => ".".intercalate (p.map hex))
    s!"ROOT {r} ADDR {a}"
  | _ => "NOOP"

end Mp
