import Mp.Print
/-! Prototype: GetRootFieldsAccessed and AddressedPaths (repaired versions) on the model AST. -/
namespace Mp

def insertSortedB (p : Bytes) : List Bytes → List Bytes
  | [] => [p]
  | q :: qs => if p == q then q :: qs else if bytesLtA p q then p :: q :: qs else q :: insertSortedB p qs
where bytesLtA : Bytes → Bytes → Bool
  | [], [] => false
  | [], _ :: _ => true
  | _ :: _, [] => false
  | a :: as, b :: bs => if a < b then true else if a > b then false else bytesLtA as bs

def sortUniq (l : List Bytes) : List Bytes := l.foldl (fun acc x => insertSortedB x acc) []

mutual
def rootPath : PathOp → List Bytes
  | .mk _ _ isFilter _ ops _ => rootParts isFilter false ops
/-- returns the accessed names contributed by the parts; `seen` = an identifier was already taken -/
def rootParts (isFilter seen : Bool) : List PathPart → List Bytes
  | [] => []
  | .ident name _ _ :: rest =>
    if !seen && !isFilter then name :: rootParts isFilter true rest else rootParts isFilter seen rest
  | .filter lo _ :: rest => rootLogic lo ++ rootParts isFilter seen rest
  | .func _ _ params _ :: rest => rootParams params ++ rootParts isFilter seen rest
def rootParams : List Param → List Bytes
  | [] => []
  | .path p :: rest => rootPath p ++ rootParams rest
  | .logic l :: rest => rootLogic l ++ rootParams rest
  | _ :: rest => rootParams rest
def rootLogic : LogicOp → List Bytes
  | .mk _ _ _ ops _ => rootLogicParts ops
def rootLogicParts : List LogicPart → List Bytes
  | [] => []
  | .path p :: rest => rootPath p ++ rootLogicParts rest
  | .logic l :: rest => rootLogic l ++ rootLogicParts rest
end

def isPrefixOfSome (val : List Bytes) (ret : List (List Bytes)) : Bool := ret.any (fun r => val.isPrefixOf r && !val.isEmpty)

def dedupPaths (l : List (List Bytes)) : List (List Bytes) :=
  l.foldl (fun ret val => if !ret.contains val && !isPrefixOfSome val ret && !val.isEmpty then ret ++ [val] else ret) []

mutual
def addrPath : PathOp → List (List Bytes)
  | .mk _ _ _ _ ops _ => match ops with
    | [] => []
    | _ => dedupPaths (addrParts [] ops)
def addrParts (idents : List Bytes) : List PathPart → List (List Bytes)
  | [] => [idents]
  | .ident name _ _ :: rest => addrParts (idents ++ [name]) rest
  | .filter lo _ :: rest => (addrLogicRaw lo).map (fun v => idents ++ v) ++ addrParts idents rest
  | .func _ _ params _ :: rest => addrParams params ++ addrParts idents rest
def addrParams : List Param → List (List Bytes)
  | [] => []
  | .path p :: rest => addrPath p ++ addrParams rest
  | _ :: rest => addrParams rest
/-- for a filter the Go code iterates the operands of the group and calls AddressedPaths on each -/
def addrLogicRaw : LogicOp → List (List Bytes)
  | .mk _ _ _ ops _ => addrLogicParts ops
def addrLogicParts : List LogicPart → List (List Bytes)
  | [] => []
  | .path p :: rest => addrPath p ++ addrLogicParts rest
  | .logic l :: rest => dedupPaths (addrLogicRaw l) ++ addrLogicParts rest
end

def addrTop : TopOp → List (List Bytes)
  | .path p => addrPath p
  | .logic l => dedupPaths (addrLogicRaw l)

def rootTop : TopOp → List Bytes
  | .path p => sortUniq (rootPath p)
  | .logic l => sortUniq (rootLogic l)

def handleAnalysis (T : Tables) (line : String) : String :=
  let src := unhex line
  match (parse T src).1 with
  | .op t =>
    let r := ",".intercalate ((rootTop t).map hex)
    let a := "|".intercalate ((addrTop t).map fun p => ".".intercalate (p.map hex))
    s!"ROOT {r} ADDR {a}"
  | _ => "NOOP"

end Mp
