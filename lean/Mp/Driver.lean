import Lean.Data.Json
import Mp.EvalS
import Mp.Analysis
import Mp.Cue
import Mp.CueFunc
import Mp.Tree
import Mp.CueWalk
import Mp.CueAst
import Mp.CueAstF
/-! Line-protocol handlers of the model driver (core-only: links as an executable). -/
open Lean
namespace Mp

def numKindOf (s : String) : NumKind :=
  match s with
  | "int" => .int | "int8" => .int8 | "int16" => .int16 | "int32" => .int32 | "int64" => .int64
  | "uint" => .uint | "uint8" => .uint8 | "uint16" => .uint16 | "uint32" => .uint32 | _ => .uint64

def numKindName : NumKind → String
  | .int => "int" | .int8 => "int8" | .int16 => "int16" | .int32 => "int32" | .int64 => "int64"
  | .uint => "uint" | .uint8 => "uint8" | .uint16 => "uint16" | .uint32 => "uint32" | .uint64 => "uint64"

def f64OfBits (bits : Nat) : PF :=
  let neg := bits / 2 ^ 63 == 1
  let e : Nat := (bits / 2 ^ 52) % 2048
  let m : Nat := bits % 2 ^ 52
  if e == 2047 then (if m == 0 then .inf neg else .nan)
  else if e == 0 then .fin neg m (-1022)
  else .fin neg (m + 2 ^ 52) ((e : Int) - 1023)

def hexNat (s : String) : Nat := s.toList.foldl (fun a c => a * 16 + (if c.isDigit then c.toNat - 48 else c.toNat - 87)) 0

def getB (j : Json) (k : String) : Bool := (j.getObjValAs? Nat k).toOption.getD 0 == 1
def getN (j : Json) (k : String) : Nat := (j.getObjValAs? Nat k).toOption.getD 0
def getS (j : Json) (k : String) : String := (j.getObjValAs? String k).toOption.getD ""

partial def decodeVal (j : Json) : GoVal :=
  let arr (k : String) : List Json := match j.getObjVal? k with | .ok (.arr a) => a.toList | _ => []
  match getS j "t" with
  | "nil" => .nil
  | "bool" => .bool (getB j "n") (getB j "v")
  | "str" => .str (getB j "n") (unhex (getS j "v"))
  | "int" => .int (numKindOf (getS j "k")) (getN j "n" != 0) ((getS j "v").toInt?.getD 0)      -- n = 2: named with a String method
  | "f64" => .f64 (getN j "n" != 0) (f64OfBits (hexNat (getS j "v")))   -- n = 2, 3: float32 (widened bits), n = 4: named with a String method
  | "win" =>
    let base := (arr "v").map decodeVal
    let ws : List Json := match j.getObjVal? "w" with | .ok (.arr a) => a.toList | _ => []
    let key := getS j "k"
    .slice true false (ws.map fun w =>
      let lo := ((w.getArrVal? 0).toOption.bind (·.getNat?.toOption)).getD 0
      let hi := ((w.getArrVal? 1).toOption.bind (·.getNat?.toOption)).getD 0
      let win := GoVal.slice true false ((base.drop lo).take (hi - lo))
      if key == "" then win else .map .str false [key.toUTF8.toList] [win])
  | "dec" => .dec ⟨(getS j "c").toInt?.getD 0, (getS j "e").toInt?.getD 0⟩
  | "ptr" => .ptr (getB j "nil") (match j.getObjVal? "v" with | .ok v => decodeVal v | _ => .nil)
  | "slice" => .slice (getB j "ei") (getB j "nil") ((arr "v").map decodeVal)
  | "array" => .array (getB j "ei") ((arr "v").map decodeVal)
  | "map" =>
    let kk := match getS j "kk" with | "named" => KeyKind.named | "iface" => .iface | _ => .str
    let kvs := arr "v"
    -- "~ns:<hex>": a key of a named string type held in an interface-keyed map: the library converts it to the string it holds
    let keyOf (s : String) : Bytes := unhex (if s.startsWith "~ns:" then (s.drop 4).toString else s)
    .map kk (getB j "nil") (kvs.map fun kv => keyOf ((kv.getArrVal? 0).toOption.bind (·.getStr?.toOption) |>.getD "")) (kvs.map fun kv => decodeVal ((kv.getArrVal? 1).toOption.getD Json.null))
  | "struct" =>
    let fs := arr "v"
    .struct (fs.map fun f => (((f.getArrVal? 0).toOption.bind (·.getStr?.toOption) |>.getD "").toUTF8.toList, ((f.getArrVal? 1).toOption.bind (·.getNat?.toOption) |>.getD 1) != 0))   -- 1 exported, 2 exported with static type any
            (fs.map fun f => decodeVal ((f.getArrVal? 2).toOption.getD Json.null))
  | "unexp" =>
    let fs := (arr "v").map decodeVal
    (match getS j "k" with
     | "A" => .struct [([65], true), ([97], false)] fs
     | "K" => .struct [([75], true), ([107], false)] fs
     | "F" => .struct [("hidden".toUTF8.toList, false), ([65], true), ([75], true)] fs
     | "D" => .struct [("id".toUTF8.toList, false), ("ID".toUTF8.toList, true), ("Name".toUTF8.toList, true)] fs
     | "D2" => .struct [("ID".toUTF8.toList, true), ("id".toUTF8.toList, false), ("Name".toUTF8.toList, true)] fs
     | "E" => .struct [("EmbInner".toUTF8.toList, true), ("ID".toUTF8.toList, true)]
                [.ptr false (.struct [("CreatedBy".toUTF8.toList, true), ("Revision".toUTF8.toList, true)] (fs.take 2)), fs.getD 2 .nil]
     | "E0" => .struct [("EmbInner".toUTF8.toList, true), ("ID".toUTF8.toList, true)]
                [.ptr true (.struct [("CreatedBy".toUTF8.toList, true), ("Revision".toUTF8.toList, true)] [.str false [], .int .int false 0]), fs.getD 0 .nil]
     | "R1" => .struct [([75], true), ([65], true)] fs
     | "R2" => .struct [("Pad".toUTF8.toList, true), ("priv".toUTF8.toList, false), ([75], true)] fs
     | _ => .struct [([104, 105, 100, 100, 101, 110], false)] fs)
  | "func" => .func
  | "chan" => .chan
  | _ => .errVal

def pfCanon : PF → String
  | .nan => "nan" | .inf n => if n then "-inf" else "+inf"
  | .fin neg m e => let (c, x) := decOfFloat neg m e; s!"{c}e{x}"
  | _ => "?"

def insertSorted (p : Bytes × String) : List (Bytes × String) → List (Bytes × String)
  | [] => [p]
  | q :: qs => if bytesLt p.1 q.1 then p :: q :: qs else q :: insertSorted p qs

partial def canon : GoVal → String
  | .nil => "nil"
  | .bool n b => (if n then "n" else "") ++ "b:" ++ b2s b
  | .str n s => (if n then "n" else "") ++ "s:" ++ hex s
  | .int k n v => (if n then "n" else "") ++ s!"i:{numKindName k}:{v}"
  | .f64 n f => (if n then "n" else "") ++ "f:" ++ pfCanon f
  | .dec d => s!"d:{d.coef}e{d.exp}"
  | .ptr isNil v => if isNil then "p(nil)" else s!"p({canon v})"
  | .slice ei isNil xs => s!"sl{b2s ei}{b2s isNil}[{",".intercalate (xs.map canon)}]"
  | .array ei xs => s!"ar{b2s ei}[{",".intercalate (xs.map canon)}]"
  | .map kk isNil ks vs =>
    let kkS := match kk with | .str => "s" | .named => "n" | .iface => "i"
    let sorted := (ks.zip (vs.map canon)).foldl (fun acc p => insertSorted p acc) []
    s!"m{kkS}{b2s isNil}" ++ "{" ++ ",".intercalate (sorted.map fun p => hex p.1 ++ "=" ++ p.2) ++ "}"
  | .struct ns vs => "st{" ++ ",".intercalate ((ns.zip vs).map fun p => String.fromUTF8! (ByteArray.mk p.1.1.toArray) ++ b2s p.1.2 ++ "=" ++ canon p.2) ++ "}"
  | .func => "func" | .chan => "chan" | .errVal => "errv"

def handleEval (T : Tables) (line : String) : String :=
  -- map keys that are not strings (nil, int, bool keys of a map[any]any) are written as "~…": not representable in GoVal
  if (line.splitOn "\"~").length > (line.splitOn "\"~ns:").length then "UNMODELLED" else
  -- values that contain themselves ("t":"cyc"): the model's values are finite trees
  if (line.splitOn "\"t\":\"cyc\"").length > 1 then "UNMODELLED" else
  -- pointers to interface variables (`*any`, "pa":1): the model's pointers point at concrete values
  if (line.splitOn "\"pa\":1").length > 1 then "UNMODELLED" else
  match Json.parse line with
  | .error e => s!"BADJSON {e}"
  | .ok j =>
    let q := unhex (getS j "q")
    let d := match j.getObjVal? "d" with | .ok v => decodeVal v | _ => .nil
    match sTop T q d with
    | .ok v => "ok " ++ canon v
    | .knf => "KNF" | .err => "ERR" | .panic => "PANIC" | .unmodelled => "UNMODELLED" | .fuel => "FUEL"


partial def decTy (j : Json) : CTy :=
  let t := (j.getObjValAs? String "t").toOption.getD ""
  let isOpen := (j.getObjValAs? Nat "open").toOption.getD 0 == 1
  match t with
  | "list" => .list isOpen (match j.getObjVal? "e" with | .ok e => decTy e | _ => .prim "top")
  | "struct" =>
    let fs := match j.getObjVal? "f" with | .ok (.arr a) => a.toList | _ => []
    .struct isOpen (fs.map fun f =>
      let m := match (f.getObjValAs? String "m").toOption.getD "reg" with | "opt" => Mark.opt | "req" => .req | _ => .reg
      .mk ((f.getObjValAs? String "n").toOption.getD "") m ((f.getObjValAs? Nat "h").toOption.getD 0 == 1) ((f.getObjValAs? Nat "q").toOption.getD 0 == 1)
        (match f.getObjVal? "ty" with | .ok ty => decTy ty | _ => .prim "top"))
  | "deplist" => .deplist (match j.getObjVal? "v" with | .ok (.arr a) => a.toList.filterMap (·.getStr?.toOption) | _ => [])
  | k => .prim k

/-- a result tree as the harness writes it: `[kind, error flag, [children]]`, kind one of P I F C A L -/
partial def decodeTree (j : Json) : Tree.VT :=
  let kind := ((j.getArrVal? 0).toOption.bind (·.getStr?.toOption)).getD ""
  let e := ((j.getArrVal? 1).toOption.bind (·.getNat?.toOption)).getD 0 != 0
  let cs : List Tree.VT := match j.getArrVal? 2 with | .ok (.arr a) => a.toList.map decodeTree | _ => []
  match kind with
  | "P" => .path e cs | "I" => .ident e cs | "F" => .filt e cs | "C" => .call e cs | "A" => .param e cs | _ => .logic e cs

def handleCue (line : String) : String :=
  match Json.parse line with
  | .error e => s!"BADJSON {e}"
  | .ok j =>
    -- a result tree: what HasErrors answers, and whether some node carries an error text
    if (j.getObjValAs? String "pos").toOption.getD "" == "tree" then
      let t := match j.getObjVal? "tree" with | .ok v => decodeTree v | _ => Tree.VT.path false []
      s!"HE={if Tree.hasErrors t then 1 else 0} ANY={if Tree.anyNode t then 1 else 0}"
    else
    let root := match j.getObjVal? "s" with | .ok s => decTy s | _ => .prim "top"
    let p := match j.getObjVal? "p" with | .ok (.arr a) => a.toList.filterMap (·.getStr?.toOption) | _ => []
    let cp := (j.getObjValAs? String "cp").toOption.getD ""
    let pos := (j.getObjValAs? String "pos").toOption.getD ""
    -- a path of keys, element functions and filters on one element key (`….First().k`, `…[@.k.IsNull()]`): "steps" = ["k:<key>" | "e" | "c:<key>"]
    let steps : Option (List Step) := match j.getObjVal? "steps" with
      | .ok (.arr a) => some (a.toList.filterMap fun x => match x.getStr?.toOption with
          | some "e" => some Step.elem
          | some s => if s.startsWith "k:" then some (Step.key (s.drop 2).toString) else if s.startsWith "c:" then some (Step.cond (s.drop 2).toString) else none
          | none => none)
      | _ => none
    -- the root fields offered at the `$` part
    if pos == "offers" then
      match offeredFields root [] cp with
      | none => "ERR"
      | some l => "OFF " ++ ",".intercalate ((l.map fun f => hex f.toUTF8.toList).toArray.qsort (· < ·)).toList
    else
    if pos == "elem" && steps.isSome then
      match validateS root (steps.getD []) cp with
      | .acc t io => s!"ACC {t} {io}"
      | .rej c => s!"REJ {c}"
      | .err => "ERR"
    else
    -- "at-root": the same key path written from `@` at the top level: it starts at the root like `$`
    -- other query shapes: the walk of the blocked root fields over the whole operation (Mp/CueWalk.lean) on the query text itself;
    -- it answers where it finds a blocked root field read and declines otherwise (the types of calls, filters and groups
    -- are decided by the Go oracle)
    if pos != "" && pos != "at-root" then
      match (j.getObjValAs? String "qh").toOption with
      | none => "UNMODELLED"
      | some qh =>
        match (parse goTables (unhex qh)).1, blockedFields root [] cp with
        | .op t, some bl =>
          -- the validator on the operation itself (Mp/CueAst.lean) where the query is of the shape it covers; otherwise the walk alone
          (match verdictOf (vTop root bl t) with
           | some v => v
           | none =>
             -- operations with filters and `@` arguments: the same validator with the cue path threaded (Mp/CueAstF.lean)
             match verdictF root bl t with
             | some v => v
             | none => if unavailable (bl.map (·.toUTF8.toList)) t then "REJ blocked" else "UNMODELLED")
        | .op _, none => "ERR"
        | _, _ => "UNMODELLED"
    else
    let calls : List (String × Nat) := match j.getObjVal? "calls" with
      | .ok (.arr a) => a.toList.map fun c => ((c.getObjValAs? String "n").toOption.getD "", (c.getObjValAs? Nat "k").toOption.getD 0)
      | _ => []
    if !calls.isEmpty then
      match validate root p cp, findValueAtPath root p with
      | .acc t io, some last =>
        (match validateCalls last calls (t, io) false with
         | some (t', io') => s!"ACC {t'} {io'}"
         | none => "REJ other")
      | .acc _ _, none => "REJ other"
      | .rej c, _ => s!"REJ {c}"
      | .err, _ => "ERR"
    else
    match validate root p cp with
    | .acc t io => s!"ACC {t} {io}"
    | .rej c => s!"REJ {c}"
    | .err => "ERR"


def handleNum (line : String) : String :=
  let tok := line.toUTF8.toList
  match parseFloat tok with
  | .syntaxErr => "syntax"
  | .rangeErr => "range"
  | .nan => "nan"
  | .inf n => if n then "-inf" else "+inf"
  | .fin neg m e => let (c, x) := decOfFloat neg m e; s!"{c}e{x}"

end Mp
