import Mp.DivProofs2
import Mathlib.Algebra.Order.Ring.Abs
/-! C04 — Modulo is `a − b·trunc(a/b)`, exactly, for ALL decimals (any precision, any scale). -/
namespace Mp
namespace Dec

/-- exponent of the remainder QuoRem returns at precision 0 -/
def remExp (a b : Dec) : Int := if a.exp - b.exp + 0 < 0 then a.exp else -0 + b.exp

/-- both operands are the integers QuoRem divides, at the remainder's exponent -/
theorem qrArgs_scale (a b : Dec) :
    a.toRat = ((qrArgs a b 0).1 : ℚ) * (10 : ℚ) ^ remExp a b ∧ b.toRat = ((qrArgs a b 0).2 : ℚ) * (10 : ℚ) ^ remExp a b := by
  unfold qrArgs remExp toRat
  simp only
  have h10 := ten_ne
  split
  · rename_i he
    obtain ⟨k, hk⟩ : ∃ k : ℕ, -(a.exp - b.exp + 0) = k := ⟨(-(a.exp - b.exp + 0)).toNat, by omega⟩
    simp only [hk, Int.toNat_natCast]
    refine ⟨trivial, ?_⟩
    push_cast
    have hb : b.exp = a.exp + k := by omega
    rw [hb, zpow_add₀ h10, zpow_natCast]
    ring
  · rename_i he
    obtain ⟨k, hk⟩ : ∃ k : ℕ, a.exp - b.exp + 0 = k := ⟨(a.exp - b.exp + 0).toNat, by omega⟩
    simp only [hk, Int.toNat_natCast]
    refine ⟨?_, by simp⟩
    push_cast
    have ha : a.exp = b.exp + k := by omega
    rw [ha, zpow_add₀ h10, zpow_natCast]
    simp only [neg_zero, zero_add]
    ring

theorem mod_eq (a b : Dec) : a.mod b = ⟨Int.tmod (qrArgs a b 0).1 (qrArgs a b 0).2, remExp a b⟩ := by
  unfold mod remExp
  rw [quoRem_eq]

/-- the integer quotient Modulo uses: truncated division of the scaled coefficients -/
def modQuot (a b : Dec) : Int := Int.tdiv (qrArgs a b 0).1 (qrArgs a b 0).2

/-- **Modulo is exact**: `a.mod b = a − b·q` with `q` an integer, the remainder is smaller than the divisor in
    absolute value and has the sign of the dividend (or is zero) — i.e. `q = trunc(a/b)` — for ALL decimals. -/
theorem mod_spec (a b : Dec) (h : b.coef ≠ 0) :
    (a.mod b).toRat = a.toRat - b.toRat * (modQuot a b : ℚ) ∧
    |(a.mod b).toRat| < |b.toRat| ∧
    0 ≤ (a.mod b).toRat * a.toRat := by
  obtain ⟨ha, hb⟩ := qrArgs_scale a b
  have hB : (qrArgs a b 0).2 ≠ 0 := qrArgs_den_ne a b 0 h
  set A := (qrArgs a b 0).1 with hA
  set B := (qrArgs a b 0).2 with hBdef
  set s : ℚ := (10 : ℚ) ^ remExp a b with hs
  have hspos : 0 < s := ten_pos _
  have hdiv : B * Int.tdiv A B + Int.tmod A B = A := Int.mul_tdiv_add_tmod A B
  have hmod : (a.mod b).toRat = (Int.tmod A B : ℚ) * s := by rw [mod_eq]; rfl
  have hdivQ : (B : ℚ) * (Int.tdiv A B : ℚ) + (Int.tmod A B : ℚ) = (A : ℚ) := by exact_mod_cast hdiv
  refine ⟨?_, ?_, ?_⟩
  · rw [hmod, ha, hb]
    unfold modQuot
    have : (Int.tmod A B : ℚ) = (A : ℚ) - (B : ℚ) * (Int.tdiv A B : ℚ) := by linarith
    rw [this]; ring
  · rw [hmod, hb, abs_mul, abs_mul, abs_of_pos hspos]
    have hlt : (Int.tmod A B).natAbs < B.natAbs := by
      rw [Int.natAbs_tmod]; exact Nat.mod_lt _ (Int.natAbs_pos.mpr hB)
    have : |(Int.tmod A B : ℚ)| < |(B : ℚ)| := by
      rw [← Int.cast_abs, ← Int.cast_abs, Int.abs_eq_natAbs, Int.abs_eq_natAbs]
      exact_mod_cast hlt
    exact mul_lt_mul_of_pos_right this hspos
  · rw [hmod, ha]
    have hsign : 0 ≤ Int.tmod A B * A := by
      rcases le_total 0 A with hpos | hneg
      · exact Int.mul_nonneg (Int.tmod_nonneg B hpos) hpos
      · have h1 : 0 ≤ Int.tmod (-A) B := Int.tmod_nonneg B (by omega)
        rw [Int.neg_tmod] at h1
        have : Int.tmod A B ≤ 0 := by omega
        exact Int.mul_nonneg_of_nonpos_of_nonpos this hneg
    have hq : (0 : ℚ) ≤ (Int.tmod A B : ℚ) * (A : ℚ) := by exact_mod_cast hsign
    have : (Int.tmod A B : ℚ) * s * ((A : ℚ) * s) = ((Int.tmod A B : ℚ) * (A : ℚ)) * (s * s) := by ring
    rw [this]
    exact mul_nonneg hq (le_of_lt (mul_pos hspos hspos))

/-- the quotient is the truncation of the exact quotient: it lies within 1 of `a/b`, on the side of zero -/
theorem modQuot_trunc (a b : Dec) (h : b.coef ≠ 0) :
    |a.toRat / b.toRat - (modQuot a b : ℚ)| < 1 ∧ |(modQuot a b : ℚ)| ≤ |a.toRat / b.toRat| := by
  obtain ⟨hm, hlt, hsg⟩ := mod_spec a b h
  have hb0 : b.toRat ≠ 0 := by
    unfold toRat
    exact mul_ne_zero (by exact_mod_cast h) (ne_of_gt (ten_pos _))
  set r := (a.mod b).toRat with hr
  set q : ℚ := (modQuot a b : ℚ) with hq
  have hab : a.toRat = b.toRat * q + r := by rw [hm]; ring
  have hquot : a.toRat / b.toRat - q = r / b.toRat := by
    rw [hab]; field_simp; ring
  constructor
  · rw [hquot, abs_div]
    exact (div_lt_one (abs_pos.mpr hb0)).mpr hlt
  · -- q and r/b have the same sign (or one is zero), so |q| ≤ |q + r/b|
    have hrb : a.toRat / b.toRat = q + r / b.toRat := by rw [← hquot]; ring
    rw [hrb]
    -- 0 ≤ r * a and a = b q + r  ⇒  0 ≤ q * (r / b)
    have key : 0 ≤ q * (r / b.toRat) := by
      by_cases hq0 : q = 0
      · simp [hq0]
      -- from |r| < |b| and q integer ≠ 0: |b q| ≥ |b| > |r|, so a = bq + r has the sign of bq; r*a ≥ 0 ⇒ r*(bq) ≥ 0
      have hqi : (1 : ℚ) ≤ |q| := by
        have : (modQuot a b) ≠ 0 := by intro hz; apply hq0; rw [hq, hz]; simp
        have h1 : (1 : Int) ≤ |modQuot a b| := Int.one_le_abs this
        rw [hq, ← Int.cast_abs]; exact_mod_cast h1
      have hbq : |r| < |b.toRat * q| := by
        rw [abs_mul]
        calc |r| < |b.toRat| := hlt
          _ = |b.toRat| * 1 := by ring
          _ ≤ |b.toRat| * |q| := mul_le_mul_of_nonneg_left hqi (abs_nonneg _)
      have hsa : 0 ≤ r * (b.toRat * q + r) := by rw [← hab]; exact hsg
      have hrbq : 0 ≤ r * (b.toRat * q) := by
        by_contra hneg
        rw [not_le] at hneg
        -- r*(bq) < 0 and |r| < |bq| ⇒ r*(bq + r) < 0
        have h2 : r * r < -(r * (b.toRat * q)) := by
          have h3 : |r| * |r| < |r| * |b.toRat * q| := by
            have hr0 : r ≠ 0 := by intro hz; rw [hz] at hneg; simp at hneg
            exact mul_lt_mul_of_pos_left hbq (abs_pos.mpr hr0)
          rw [← abs_mul, ← abs_mul, abs_mul_self, abs_of_neg hneg] at h3
          exact h3
        nlinarith
      have : q * (r / b.toRat) = (r * (b.toRat * q)) / (b.toRat * b.toRat) := by
        field_simp
      rw [this]
      exact div_nonneg hrbq (mul_self_nonneg _)
    -- |q| ≤ |q + x| when 0 ≤ q * x
    have hsq : q ^ 2 ≤ (q + r / b.toRat) ^ 2 := by nlinarith [sq_nonneg (r / b.toRat)]
    exact sq_le_sq.mp hsq

#print axioms mod_spec
end Dec
end Mp
