import Mp.ProofsArr
/-! C17 — `Select(q)` returns, in order, the results of running `q` on each element, flattening array results;
    the first element on which `q` fails decides the outcome. (`selectList` is the loop of `func_Select`; the element
    evaluation is a parameter, so the statements hold for every sub-query.) -/
namespace Mp

/-- what one element contributes to the selection -/
def selContrib (r : GoVal) : List GoVal := match isSliceKind r with | some ys => ys | none => [r]

theorem selectList_spec (f : GoVal → Out) (r : GoVal → GoVal) :
    ∀ (xs acc : List GoVal), (∀ x ∈ xs, f x = .ok (r x)) →
      selectList f xs acc = .ok (.slice true (acc ++ xs.flatMap (fun x => selContrib (r x))).isEmpty
                                  (acc ++ xs.flatMap (fun x => selContrib (r x)))) := by
  intro xs
  induction xs with
  | nil => intro acc _; simp [selectList]
  | cons x xs ih =>
    intro acc h
    have hx := h x (by simp)
    have ht : ∀ y ∈ xs, f y = .ok (r y) := fun y hy => h y (List.mem_cons_of_mem _ hy)
    unfold selectList
    rw [hx]
    simp only [List.flatMap_cons, selContrib]
    cases hk : isSliceKind (r x) with
    | some ys => simp only; rw [ih _ ht]; simp [selContrib, List.append_assoc]
    | none => simp only; rw [ih _ ht]; simp [selContrib, List.append_assoc]

/-- the selection from a list: the contributions of the elements, in order -/
theorem select_spec (f : GoVal → Out) (r : GoVal → GoVal) (xs : List GoVal) (h : ∀ x ∈ xs, f x = .ok (r x)) :
    selectList f xs [] = .ok (.slice true (xs.flatMap (fun x => selContrib (r x))).isEmpty
                               (xs.flatMap (fun x => selContrib (r x)))) := by
  simpa using selectList_spec f r xs [] h

/-- the first element on which the sub-query does not succeed decides the outcome -/
theorem select_first_failure (f : GoVal → Out) (r : GoVal → GoVal) (pre post : List GoVal) (x : GoVal) (e : Out)
    (hpre : ∀ y ∈ pre, f y = .ok (r y)) (hx : f x = e) (hne : ∀ v, e ≠ .ok v) :
    ∀ acc, selectList f (pre ++ x :: post) acc = e := by
  induction pre with
  | nil =>
    intro acc
    simp only [List.nil_append]
    unfold selectList
    rw [hx]
    cases e with
    | ok v => exact absurd rfl (hne v)
    | _ => rfl
  | cons p pre ih =>
    intro acc
    have hp := hpre p (by simp)
    have ht : ∀ y ∈ pre, f y = .ok (r y) := fun y hy => hpre y (List.mem_cons_of_mem _ hy)
    simp only [List.cons_append]
    unfold selectList
    rw [hp]
    simp only
    cases hk : isSliceKind (r p) with
    | some ys => simp only; exact ih ht _
    | none => simp only; exact ih ht _

/-- length: elements that yield scalars contribute one result each -/
theorem select_scalar_length (f : GoVal → Out) (r : GoVal → GoVal) (xs : List GoVal)
    (h : ∀ x ∈ xs, f x = .ok (r x)) (hs : ∀ x ∈ xs, isSliceKind (r x) = none) :
    selectList f xs [] = .ok (.slice true xs.isEmpty (xs.map r)) := by
  rw [select_spec f r xs h]
  have : xs.flatMap (fun x => selContrib (r x)) = xs.map r := by
    induction xs with
    | nil => rfl
    | cons a t ih =>
      simp only [List.flatMap_cons, List.map_cons]
      rw [ih (fun x hx => h x (List.mem_cons_of_mem _ hx)) (fun x hx => hs x (List.mem_cons_of_mem _ hx))]
      simp [selContrib, hs a (by simp)]
  rw [this]
  cases xs <;> simp

/-- on a list receiver `Select` is that loop over the elements (Go slices and Go arrays alike) -/
theorem selectOn_slice (ei n : Bool) (xs : List GoVal) (run : GoVal → Out) :
    selectOn (.slice ei n xs) run = selectList run xs [] := by
  unfold selectOn
  simp [RV.of, RV.derefOnce, RV.kind, GoVal.kind]

theorem selectOn_array (ei : Bool) (xs : List GoVal) (run : GoVal → Out) :
    selectOn (.array ei xs) run = selectList run xs [] := by
  unfold selectOn
  simp [RV.of, RV.derefOnce, RV.kind, GoVal.kind]

#print axioms selectOn_slice
#print axioms selectOn_array
#print axioms select_spec
#print axioms select_first_failure
#print axioms select_scalar_length
end Mp
