import Mp.ProofsL2
/-! Prototype: C01 on the struct carrier — objects rendered as Go structs with exported fields, arrays as []any of
    structs. Core-only. -/
namespace Mp
namespace L2

mutual
def renderS : Doc → GoVal
  | .null => .nil
  | .bool b => .bool false b
  | .num d => .dec d
  | .str s => .str false s
  | .arr xs => .slice true false (renderSList xs)
  | .obj ks vs => .struct (ks.map (fun k => (k, true))) (renderSList vs)
def renderSList : List Doc → List GoVal
  | [] => []
  | d :: ds => renderS d :: renderSList ds
end

theorem conv_renderS (v : Doc) : numberKindsToDecimal (renderS v) = renderS v := by
  cases v with
  | null => simp [renderS, numberKindsToDecimal, RV.of, isEmptyValue, RV.kind, RV.derefOnce, toDecimalIfNumber, toDecimalCheck]
  | bool b => cases b <;> simp [renderS, numberKindsToDecimal, RV.of, isEmptyValue, RV.kind, GoVal.kind, RV.derefOnce, toDecimalIfNumber, toDecimalCheck]
  | num d => simp [renderS, numberKindsToDecimal, RV.of, isEmptyValue, RV.kind, GoVal.kind, RV.derefOnce, toDecimalIfNumber, toDecimalCheck]
  | str s => cases s <;> simp [renderS, numberKindsToDecimal, RV.of, isEmptyValue, RV.kind, GoVal.kind, RV.derefOnce]
  | arr xs => cases xs <;> simp [renderS, renderSList, numberKindsToDecimal, RV.of, isEmptyValue, RV.kind, GoVal.kind, RV.derefOnce, toDecimalIfNumber, toDecimalCheck]
  | obj ks vs => simp [renderS, numberKindsToDecimal, RV.of, isEmptyValue, RV.kind, GoVal.kind, RV.derefOnce, toDecimalIfNumber, toDecimalCheck]

/-- field lookup in a struct (first exported field equal under folding) is the specification's lookup -/
theorem findField_spec (name : Bytes) : ∀ (ks : List Bytes) (vs : List Doc),
    (((ks.map (fun k => (k, true))).zip (renderSList vs)).find? (fun p => p.1.2 && equalFold p.1.1 name)).map (fun p => p.2) =
      (specGet name ks vs).map renderS := by
  intro ks
  induction ks with
  | nil => intro vs; simp [specGet]
  | cons k ks ih =>
    intro vs
    cases vs with
    | nil => simp [specGet, renderSList]
    | cons v vs =>
      simp only [List.map_cons, renderSList, List.zip_cons_cons, List.find?_cons, specGet, Bool.true_and]
      cases hf : equalFold k name with
      | true => simp
      | false => simpa using ih vs

theorem fieldByName_struct (name : Bytes) (ks : List Bytes) (vs : List Doc) (rv : RV)
    (he : isEmptyValue rv = false) (hd : rv.derefAll = .val (renderS (.obj ks vs))) :
    fieldByName name rv = (specGet name ks vs).map renderS := by
  unfold fieldByName
  rw [he, hd]
  simp only [renderS, Bool.false_eq_true, if_false]
  have h := findField_spec name ks vs
  cases hfind : ((ks.map (fun k => (k, true))).zip (renderSList vs)).find? (fun p => p.1.2 && equalFold p.1.1 name) with
  | none => rw [hfind] at h; simpa using h
  | some p =>
    rw [hfind] at h
    simp only [Option.map_some] at h
    cases hs : specGet name ks vs with
    | none => rw [hs] at h; simp at h
    | some v => rw [hs] at h; simp only [Option.map_some, Option.some.injEq] at h; simp [h, conv_renderS]

theorem identDo_objS (name : Bytes) (ks : List Bytes) (vs : List Doc) :
    identDo name (renderS (.obj ks vs)) = match specGet name ks vs with | some v => .ok (renderS v) | none => .knf := by
  have hf := fieldByName_struct name ks vs (RV.of (renderS (.obj ks vs)))
    (by simp [renderS, RV.of, isEmptyValue]) (by simp [renderS, RV.of, RV.derefAll, GoVal.strip])
  have : identDo name (renderS (.obj ks vs)) =
      match fieldByName name (RV.of (renderS (.obj ks vs))) with | some o => .ok o | none => .knf := by
    rfl
  rw [this, hf]
  cases specGet name ks vs <;> rfl

theorem fieldByName_renderS (name : Bytes) (x : Doc) :
    fieldByName name (.iface (renderS x)) = (projGet name x).map renderS := by
  cases x with
  | null => simp [renderS, fieldByName, isEmptyValue, projGet]
  | bool b => simp [renderS, fieldByName, isEmptyValue, projGet, RV.derefOnce, RV.derefAll, GoVal.strip, RV.kind, RV.elem, RV.of]
  | num d => simp [renderS, fieldByName, isEmptyValue, projGet, RV.derefOnce, RV.derefAll, GoVal.strip, RV.kind, RV.elem, RV.of]
  | str s => simp [renderS, fieldByName, isEmptyValue, projGet, RV.derefOnce, RV.derefAll, GoVal.strip, RV.kind, RV.elem, RV.of]
  | arr xs => simp [renderS, fieldByName, isEmptyValue, projGet, RV.derefOnce, RV.derefAll, GoVal.strip, RV.kind, RV.elem, RV.of]
  | obj ks vs =>
    simp only [projGet]
    exact fieldByName_struct name ks vs _ (by simp [renderS, isEmptyValue]) (by simp [renderS, RV.derefOnce, RV.derefAll, GoVal.strip, RV.kind, RV.elem, RV.of])

theorem filterMap_renderS (name : Bytes) : ∀ (xs : List Doc),
    ((renderSList xs).map RV.iface).filterMap (fieldByName name) = renderSList (xs.filterMap (projGet name)) := by
  intro xs
  induction xs with
  | nil => rfl
  | cons x xs ih =>
    simp only [renderSList, List.map_cons, List.filterMap_cons, fieldByName_renderS]
    cases projGet name x with
    | none => simpa using ih
    | some v => simp [renderSList, ih]

theorem renderSList_isEmpty (xs : List Doc) : (renderSList xs).isEmpty = xs.isEmpty := by
  cases xs <;> rfl

theorem headKindS (x : Doc) :
    (let k := ((RV.iface (renderS x)).derefAll).kind; (k == Kind.struct || k == Kind.map)) = headOk x := by
  cases x <;> simp [renderS, RV.derefAll, GoVal.strip, RV.kind, RV.elem, RV.of, GoVal.kind, isObj, isNum, headOk]

theorem identDo_arrS (name : Bytes) (xs : List Doc) :
    identDo name (renderS (.arr xs)) =
      match xs with
      | [] => .knf
      | x :: _ =>
        if headOk x then
          (if (xs.filterMap (projGet name)).isEmpty then .knf else .ok (renderS (.arr (xs.filterMap (projGet name)))))
        else .knf := by
  cases xs with
  | nil => rfl
  | cons x rest =>
    have hfm := filterMap_renderS name (x :: rest)
    have hk := headKindS x
    simp only [renderS, renderSList] at hfm ⊢
    rw [identDo_slice, valuesByName_slice]
    simp only [] at hk
    rw [hfm, hk, renderSList_isEmpty]
    cases headOk x <;> simp

theorem identDo_primS (name : Bytes) (d : Doc) (h : ∀ ks vs, d ≠ .obj ks vs) (h2 : ∀ xs, d ≠ .arr xs) : identDo name (renderS d) = .knf := by
  cases d with
  | null => simp [renderS, identDo, RV.of, RV.derefOnce, RV.kind, valuesByName, isEmptyValue]
  | bool b => cases b <;> simp [renderS, identDo, RV.of, RV.derefOnce, RV.kind, GoVal.kind, valuesByName, isEmptyValue]
  | num x => simp [renderS, identDo, RV.of, RV.derefOnce, RV.derefAll, GoVal.strip, RV.kind, GoVal.kind, valuesByName, isEmptyValue, fieldByName]
  | str s => cases s <;> simp [renderS, identDo, RV.of, RV.derefOnce, RV.kind, GoVal.kind, valuesByName, isEmptyValue]
  | arr xs => exact absurd rfl (h2 xs)
  | obj ks vs => exact absurd rfl (h ks vs)

theorem identDo_stepS (k : Bytes) (d : Doc) (_hg : Good d) :
    identDo k (renderS d) = match stepSpec k d with | some v => .ok (renderS v) | none => .knf := by
  cases d with
  | obj keys vals => simp only [stepSpec]; exact identDo_objS k keys vals
  | arr xs =>
    rw [identDo_arrS k xs]
    cases xs with
    | nil => simp [stepSpec]
    | cons x rest =>
      simp only [stepSpec]
      cases headOk x <;> simp
      split <;> simp_all
  | null => rw [identDo_primS k .null (by intro _ _ h; cases h) (by intro _ h; cases h)]; simp [stepSpec]
  | bool b => rw [identDo_primS k (.bool b) (by intro _ _ h; cases h) (by intro _ h; cases h)]; simp [stepSpec]
  | num x => rw [identDo_primS k (.num x) (by intro _ _ h; cases h) (by intro _ h; cases h)]; simp [stepSpec]
  | str s => rw [identDo_primS k (.str s) (by intro _ _ h; cases h) (by intro _ h; cases h)]; simp [stepSpec]

theorem isNilVal_renderS (d : Doc) : isNilVal (renderS d) = isNull d := by
  cases d <;> simp [renderS, isNilVal, isNull]

/-- documents as Go structs with exported fields named like the keys -/
def structCarrier : Carrier := ⟨renderS, identDo_stepS, isNilVal_renderS⟩

/-- C01 on struct data: same specification, hence the same answers as on maps -/
theorem path_refines_struct (ks : List Bytes) (d : Doc) (hg : Good d) (hne : ks ≠ []) :
    sPath (.mk true false (idents ks)) (renderS d) (renderS d) =
      match pathSpec ks d with | some v => .ok (renderS v) | none => .knf :=
  path_refines_on structCarrier ks d hg hne

/-- C10 for key-only paths: maps and structs give the same logical answer -/
theorem path_carrier_independent (ks : List Bytes) (d : Doc) (hg : Good d) (hne : ks ≠ []) :
    ∃ o : Option Doc,
      sPath (.mk true false (idents ks)) (render d) (render d) = (match o with | some v => .ok (render v) | none => .knf) ∧
      sPath (.mk true false (idents ks)) (renderS d) (renderS d) = (match o with | some v => .ok (renderS v) | none => .knf) :=
  ⟨pathSpec ks d, path_refines ks d hg hne, path_refines_struct ks d hg hne⟩

#print axioms path_refines_struct
#print axioms path_carrier_independent
end L2
end Mp
