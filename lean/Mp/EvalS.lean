import Mp.Eval
/-! Prototype: fuel-free evaluator. A parsed query is elaborated once (every `Select` literal parsed recursively);
    evaluation is structural recursion on the elaborated tree. Core-only. -/
namespace Mp

mutual
inductive EPath where
  | mk (root isFilter : Bool) (ops : List EPart)
inductive EPart where
  | ident (name : Bytes) (prop : Bool)
  | filter (lo : ELogic)
  | func (name : Bytes) (params : List EParam) (sel : ESel)
/-- what `Select` will run: not a Select / not a usable literal / the elaborated sub-query -/
inductive ESel where
  | none
  | bad
  | dyn      -- the query comes from a path or group argument: decided by the data, not modelled (known finding C07/21)
  | path (p : EPath)
  | logic (l : ELogic)
inductive ELogic where
  | mk (ty : Bytes) (ops : List ELPart)
inductive ELPart where
  | path (p : EPath)
  | logic (l : ELogic)
inductive EParam where
  | num (d : Dec)
  | str (s : Bytes)
  | bool (b : Bool)
  | path (p : EPath)
  | logic (l : ELogic)
end

inductive ETop where
  | path (p : EPath)
  | logic (l : ELogic)

/-! ### elaboration (fuel = remaining literal length; a nested literal is strictly shorter than its query) -/
mutual
def elabPath (T : Tables) : Nat → PathOp → EPath
  | fuel, .mk _ root isFilter _ ops _ => .mk root isFilter (elabParts T fuel ops)
def elabParts (T : Tables) : Nat → List PathPart → List EPart
  | _, [] => []
  | fuel, p :: ps => elabPart T fuel p :: elabParts T fuel ps
def elabPart (T : Tables) : Nat → PathPart → EPart
  | _, .ident name prop _ => .ident name prop
  | fuel, .filter lo _ => .filter (elabLogic T fuel lo)
  | fuel, .func _ name params _ =>
    let sel : ESel :=
      if name != str "Select" then .none else
      if params.any (fun p => match p with | .path _ => true | .logic _ => true | _ => false) then .dyn else
      match fuel, params with
      | fuel'+1, [.str q] =>
        match (parse T q).1 with
        | .op (.path p) => .path (elabPath T (min fuel' q.length) p)
        | .op (.logic l) => .logic (elabLogic T (min fuel' q.length) l)
        | _ => .bad
      | _, _ => .bad
    .func name (elabParams T fuel params) sel
def elabParams (T : Tables) : Nat → List Param → List EParam
  | _, [] => []
  | fuel, p :: ps => elabParam T fuel p :: elabParams T fuel ps
def elabParam (T : Tables) : Nat → Param → EParam
  | _, .num d => .num d
  | _, .str s => .str s
  | _, .bool b => .bool b
  | fuel, .path p => .path (elabPath T fuel p)
  | fuel, .logic l => .logic (elabLogic T fuel l)
def elabLogic (T : Tables) : Nat → LogicOp → ELogic
  | fuel, .mk _ _ ty ops _ => .mk ty (elabLParts T fuel ops)
def elabLParts (T : Tables) : Nat → List LogicPart → List ELPart
  | _, [] => []
  | fuel, p :: ps => elabLPart T fuel p :: elabLParts T fuel ps
def elabLPart (T : Tables) : Nat → LogicPart → ELPart
  | fuel, .path p => .path (elabPath T fuel p)
  | fuel, .logic l => .logic (elabLogic T fuel l)
end

/-! ### list helpers that take the element evaluation as a function (so that the evaluator stays structural) -/
def filterList (f : GoVal → Out) : List GoVal → List GoVal → Out
  | [], acc => .ok (.slice true false acc)
  | x :: xs, acc =>
    match f x with
    | .ok (.bool _ b) => filterList f xs (if b then acc ++ [x] else acc)
    | .ok _ => .panic      -- `res.(bool)` on something that is not a bool
    | o => o

def selectList (f : GoVal → Out) : List GoVal → List GoVal → Out
  | [], acc => .ok (.slice true (acc.isEmpty) acc)
  | x :: xs, acc =>
    match f x with
    | .ok r => match isSliceKind r with
      | some ys => selectList f xs (acc ++ ys)
      | none => selectList f xs (acc ++ [r])
    | o => o

def spreadParam (res : GoVal) : Option (List Prm) :=
  match normalizeValue res with
  | .dec d => some [.num d]
  | .str false s => some [.str s]
  | .bool false b => some [.bool b]
  | .slice true false xs =>
    xs.foldl (fun a x => match a, x with
      | some l, .dec d => some (l ++ [Prm.num d])
      | some l, .str false s => some (l ++ [Prm.str s])
      | some l, .bool false b => some (l ++ [Prm.bool b])
      | _, _ => none) (some [])
  | .slice true true _ => some []      -- a nil []any (what Select returns for an empty list): no arguments
  | _ => none

/-- the argument list a path or group argument contributes. A typed list that was never allocated (a nil `[]int`, `[]string`, ...)
    contributes nothing when its type is one the code lists and is an error otherwise: the model's values do not record the element
    type of a list without elements, so it declines these. -/
def spreadOut (res : GoVal) : Sum Out (List Prm) :=
  match normalizeValue res with
  | .slice false true _ => .inl .unmodelled
  | _ => match spreadParam res with | some l => .inr l | none => .inl .err

def selectOn (recv : GoVal) (run : GoVal → Out) : Out :=
  match (RV.of recv).derefOnce with
  | .val (.slice _ _ xs) => selectList run xs []
  | .val (.array _ xs) => selectList run xs []
  | .val (.map .iface _ _ _) => .unmodelled
  | .val (.map _ _ keys vals) =>
    let sorted := (keys.zip vals).toArray.qsort (fun a b => bytesLt a.1 b.1) |>.toList
    selectList run (sorted.map (·.2)) []
  | _ => .err

def tyAnd : Bytes := [65, 110, 100]
def tyOr : Bytes := [79, 114]

def isBadSel : ESel → Bool | .bad => true | _ => false

mutual
def sPath (p : EPath) (cur orig : GoVal) : Out :=
  match p with
  | .mk root isFilter ops =>
    if root && isFilter then .err else
    let data := if root then orig else cur
    match ops with
    | [] => .ok (numberKindsToDecimal data)
    | _ => sParts ops data orig false none
termination_by structural p

def sParts (ops : List EPart) (data orig : GoVal) (priorNil : Bool) (prev : Option Bool) : Out :=
  match ops with
  | [] => .ok data
  | op :: rest =>
    let isFunc := match op with | .func .. => true | _ => false
    let prop := match op with | .ident _ p => p | _ => false
    if (prev.isSome && priorNil) && !(prev.getD false) && !isFunc then .knf else
    match sPart op data orig with
    | .ok v => sParts rest v orig (priorNil || isNilVal v) (some prop)
    | .knf =>
      if prop then
        match rest with
        | [] => .knf
        | _ => sParts rest .nil orig true (some prop)
      else .knf
    | o => o
termination_by structural ops

def sPart (op : EPart) (cur orig : GoVal) : Out :=
  match op with
  | .ident name _ => identDo name cur
  | .filter lo =>
    match asStructOrSlice cur with
    | none => .err
    | some (obj, true) =>
      match sLogic lo obj orig with
      | .ok (.bool _ true) => .ok obj
      | .ok _ => .ok .nil
      | o => o
    | some (lst, false) =>
      match lst with
      | .slice _ _ xs => filterList (fun x => sLogic lo x orig) xs []
      | _ => .err
  | .func name params sel =>
    if isBadSel sel then .err else
    match sParams params cur orig with
    | .inl o => o
    | .inr ps =>
      let recv := toDecimalIfNumber (objectAsMap (normalizeValue cur))
      let nm := String.fromUTF8! (ByteArray.mk name.toArray)
      if !knownFuncs.contains nm then .err else
      match pureFunc nm ps recv with
      | some o => o
      | none => sSel sel recv
termination_by structural op

def sSel (sel : ESel) (recv : GoVal) : Out :=
  match sel with
  | .path p => selectOn recv (fun elem => sPath p elem elem)
  | .logic l => selectOn recv (fun elem => sLogic l elem elem)
  | .bad => .err
  | .dyn => .unmodelled
  | .none => .unmodelled
termination_by structural sel

def sParams (ps : List EParam) (cur orig : GoVal) : Sum Out (List Prm) :=
  match ps with
  | [] => .inr []
  | p :: rest =>
    match sParam p cur orig with
    | .inl o => .inl o
    | .inr l => match sParams rest cur orig with
      | .inl o => .inl o
      | .inr ls => .inr (l ++ ls)
termination_by structural ps

def sParam (p : EParam) (cur orig : GoVal) : Sum Out (List Prm) :=
  match p with
  | .num d => .inr [.num d]
  | .str s => .inr [.str s]
  | .bool b => .inr [.bool b]
  | .path pp => match sPath pp cur orig with
    | .ok res => spreadOut res
    | o => .inl o
  | .logic l => match sLogic l cur orig with
    | .ok res => spreadOut res
    | o => .inl o
termination_by structural p

def sLogic (l : ELogic) (cur orig : GoVal) : Out :=
  match l with
  | .mk ty ops => sLParts ty ops cur orig
termination_by structural l

def sLParts (ty : Bytes) (ops : List ELPart) (cur orig : GoVal) : Out :=
  match ops with
  | [] => if ty == tyAnd then okBool true else if ty == tyOr then okBool false else .err
  | op :: rest =>
    match sLPart op cur orig with
    | .ok v =>
      (match normalizeValue v with
       | .bool false b =>
         if ty == tyAnd && !b then okBool false
         else if ty == tyOr && b then okBool true
         else sLParts ty rest cur orig
       | _ => okBool false)
    | o => o
termination_by structural ops

def sLPart (op : ELPart) (cur orig : GoVal) : Out :=
  match op with
  | .path p => sPath p cur orig
  | .logic l => sLogic l cur orig
termination_by structural op
end

def sTop (T : Tables) (q : Bytes) (data : GoVal) : Out :=
  match (parse T q).1 with
  | .op (.path p) => sPath (elabPath T q.length p) data data
  | .op (.logic l) => sLogic (elabLogic T q.length l) data data
  | .panic => .panic
  | _ => .err

end Mp
