import Mp.Cue
/-! Prototype: C13 — the validator's loop (which re-resolves the whole path from the root at every key and carries
    the previous type along) computes a plain recursive walk of the schema. Core-only. -/
namespace Mp

/-- the specification: walk the schema one key at a time -/
def specWalk : CTy → List String → VRes
  | v, [] => match kindOf v with
    | some (t, io) => .acc t io
    | none => .rej "other"
  | v, k :: ks =>
    match kindOf v with
    | none => .rej "other"
    | some (t, io) =>
      if io == "Single" && isPrimitive t then .rej "primitive"
      else if io == "Array" then .rej "array"
      else match stepKey v k with
        | none => .rej "notfound"
        | some w => specWalk w ks

theorem stepKey_top (k : String) : stepKey (.prim "top") k = some (.prim "top") := by
  unfold stepKey; rfl

theorem fvp_top (p : List String) : findValueAtPath (.prim "top") p = some (.prim "top") := by
  cases p with
  | nil => rfl
  | cons k ks => unfold findValueAtPath; rfl

theorem fvp_cons_nontop (v : CTy) (hv : v ≠ .prim "top") (k : String) (ks : List String) :
    findValueAtPath v (k :: ks) = (stepKey v k).bind (fun w => findValueAtPath w ks) := by
  conv => lhs; unfold findValueAtPath
  split
  · next h => exact absurd rfl hv
  · cases stepKey v k <;> rfl

/-- resolving a path extended by one key = resolving the path, then one step -/
theorem fvp_snoc (k : String) : ∀ (p : List String) (v : CTy),
    findValueAtPath v (p ++ [k]) = (findValueAtPath v p).bind (fun w => stepKey w k) := by
  intro p
  induction p with
  | nil =>
    intro v
    by_cases hv : v = .prim "top"
    · subst hv; simp [fvp_top, stepKey_top]
    · simp only [List.nil_append]
      rw [fvp_cons_nontop v hv]
      cases hs : stepKey v k <;> simp [findValueAtPath, hs]
  | cons k0 ks ih =>
    intro v
    by_cases hv : v = .prim "top"
    · subst hv; simp [fvp_top, stepKey_top]
    · simp only [List.cons_append]
      rw [fvp_cons_nontop v hv, fvp_cons_nontop v hv]
      cases hs : stepKey v k0 with
      | none => simp
      | some w => simp only [Option.bind_some]; exact ih w

/-- kindOf is always `Single` or `Array` in its second component -/
theorem kindOf_io (v : CTy) (t io : String) (h : kindOf v = some (t, io)) : io = "Single" ∨ io = "Array" := by
  unfold kindOf at h
  split at h
  · simp only [Option.map_eq_some_iff, Prod.mk.injEq] at h
    obtain ⟨a, _, _, h3⟩ := h; exact Or.inl h3.symm
  · simp only [Option.some.injEq, Prod.mk.injEq] at h; exact Or.inl h.2.symm
  · simp only [Option.some.injEq, Prod.mk.injEq] at h; exact Or.inr h.2.symm
  · split at h
    · simp only [Option.map_eq_some_iff, Prod.mk.injEq] at h
      obtain ⟨a, _, _, h3⟩ := h; exact Or.inr h3.symm
    · simp only [Option.some.injEq, Prod.mk.injEq] at h; exact Or.inr h.2.symm
    · simp only [Option.some.injEq, Prod.mk.injEq] at h; exact Or.inl h.2.symm
    · simp only [Option.some.injEq, Prod.mk.injEq] at h; exact Or.inl h.2.symm

/-- the loop invariant: the carried type is the kind of what the path so far resolves to -/
theorem validate_walk (root : CTy) : ∀ (ks p : List String) (w : CTy) (t io : String),
    findValueAtPath root p = some w → kindOf w = some (t, io) →
    validateKeys root [] ks p (some (t, io)) false = specWalk w ks := by
  intro ks
  induction ks with
  | nil =>
    intro p w t io _ hk
    simp [validateKeys, specWalk, hk]
  | cons k ks ih =>
    intro p w t io hp hk
    unfold validateKeys specWalk
    simp only [hk]
    rcases kindOf_io w t io hk with hio | hio
    · subst hio
      by_cases hprim : isPrimitive t = true
      · simp [hprim]
      · have hprim' : isPrimitive t = false := by simpa using hprim
        simp only [hprim', Bool.false_eq_true, if_false, Bool.and_false, beq_self_eq_true, Bool.true_and]
        simp only [List.contains_nil, Bool.and_false, Bool.false_eq_true, if_false]
        rw [fvp_snoc, hp]
        simp only [Option.bind_some]
        have : ("Single" == "Array") = false := by decide
        simp only [this, Bool.false_eq_true, if_false]
        cases hs : stepKey w k with
        | none => rfl
        | some w' =>
          simp only []
          cases hk' : kindOf w' with
          | none =>
            cases ks <;> simp [specWalk, hk']
          | some ti =>
            obtain ⟨t', io'⟩ := ti
            exact ih (p ++ [k]) w' t' io' (by rw [fvp_snoc, hp]; simp [hs]) hk'
    · subst hio
      have : ("Array" == "Single") = false := by decide
      simp [this]

#print axioms validate_walk
end Mp
