import Mp.EvalS
/-! C18 — the substring family means what the names say (core-only proofs over the evaluator model). -/
namespace Mp

theorem isInfix_go_iff (needle : Bytes) : ∀ (fuel : Nat) (h : Bytes), h.length ≤ fuel →
    (isInfix.go needle h fuel = true ↔ needle <:+: h) := by
  intro fuel
  induction fuel with
  | zero =>
    intro h hl
    have : h = [] := List.eq_nil_of_length_eq_zero (by omega)
    subst this
    unfold isInfix.go
    rw [List.isPrefixOf_iff_prefix]
    simp
  | succ f ih =>
    intro h hl
    unfold isInfix.go
    cases hp : needle.isPrefixOf h with
    | true =>
      simp only [if_true, true_iff]
      exact (List.isPrefixOf_iff_prefix.mp hp).isInfix
    | false =>
      have hnp : ¬ needle <+: h := fun hh => by rw [List.isPrefixOf_iff_prefix.mpr hh] at hp; cases hp
      simp only [Bool.false_eq_true, if_false]
      cases h with
      | nil =>
        simp only [Bool.false_eq_true, false_iff]
        intro hi
        have : needle = [] := by simpa using hi
        subst this
        exact hnp (List.nil_prefix)
      | cons c t =>
        simp only
        rw [ih t (by simp at hl; omega), List.infix_cons_iff]
        constructor
        · exact Or.inr
        · rintro (h1 | h2)
          · exact absurd h1 hnp
          · exact h2

/-- the model's substring test is the mathematical one: `p` occurs in `s` iff `s = a ++ p ++ b` -/
theorem isInfix_iff (p s : Bytes) : isInfix p s = true ↔ p <:+: s := by
  unfold isInfix
  exact isInfix_go_iff p s.length s (Nat.le_refl _)

/-- C18: Contains on a string receiver and a string argument is the substring test -/
theorem contains_spec (s p : Bytes) : pureFunc "Contains" [.str p] (.str false s) = some (okBool (isInfix p s)) := by
  unfold pureFunc
  simp [firstOfString, prmStrings, okBool]

theorem prefix_spec (s p : Bytes) : pureFunc "Prefix" [.str p] (.str false s) = some (okBool (p.isPrefixOf s)) := by
  unfold pureFunc
  simp [firstOfString, prmStrings, okBool]

theorem suffix_spec (s p : Bytes) : pureFunc "Suffix" [.str p] (.str false s) = some (okBool (p.isSuffixOf s)) := by
  unfold pureFunc
  simp [firstOfString, prmStrings, okBool]

/-- the three tests in terms of list decomposition -/
theorem contains_true_iff (s p : Bytes) :
    pureFunc "Contains" [.str p] (.str false s) = some (okBool true) ↔ ∃ a b, s = a ++ p ++ b := by
  rw [contains_spec]
  constructor
  · intro h
    have : isInfix p s = true := by
      cases hb : isInfix p s with
      | true => rfl
      | false => rw [hb] at h; simp [okBool] at h
    obtain ⟨a, b, hab⟩ := (isInfix_iff p s).mp this
    exact ⟨a, b, hab.symm⟩
  · rintro ⟨a, b, hab⟩
    have : isInfix p s = true := (isInfix_iff p s).mpr ⟨a, b, hab.symm⟩
    rw [this]

theorem prefix_true_iff (s p : Bytes) :
    pureFunc "Prefix" [.str p] (.str false s) = some (okBool true) ↔ ∃ b, s = p ++ b := by
  rw [prefix_spec]
  constructor
  · intro h
    have : p.isPrefixOf s = true := by
      cases hb : p.isPrefixOf s with
      | true => rfl
      | false => rw [hb] at h; simp [okBool] at h
    obtain ⟨b, hb⟩ := List.isPrefixOf_iff_prefix.mp this
    exact ⟨b, hb.symm⟩
  · rintro ⟨b, hb⟩
    have : p.isPrefixOf s = true := List.isPrefixOf_iff_prefix.mpr ⟨b, hb.symm⟩
    rw [this]

theorem suffix_true_iff (s p : Bytes) :
    pureFunc "Suffix" [.str p] (.str false s) = some (okBool true) ↔ ∃ a, s = a ++ p := by
  rw [suffix_spec]
  constructor
  · intro h
    have : p.isSuffixOf s = true := by
      cases hb : p.isSuffixOf s with
      | true => rfl
      | false => rw [hb] at h; simp [okBool] at h
    obtain ⟨a, ha⟩ := List.isSuffixOf_iff_suffix.mp this
    exact ⟨a, ha.symm⟩
  · rintro ⟨a, ha⟩
    have : p.isSuffixOf s = true := List.isSuffixOf_iff_suffix.mpr ⟨a, ha.symm⟩
    rw [this]

def negOut (o : Out) : Out := match o with | .ok (.bool n b) => .ok (.bool n (!b)) | o => o

/-- C18: the Not-forms are the exact negations of the plain forms on EVERY receiver and argument list,
    and fail exactly when the plain form fails -/
theorem notContains_neg (ps : List Prm) (v : GoVal) :
    pureFunc "NotContains" ps v = (pureFunc "Contains" ps v).map negOut := by
  unfold pureFunc
  simp only [Option.map, negOut]
  cases firstOfString ps with
  | none => rfl
  | some p =>
    cases v with
    | str n s => cases n <;> simp [okBool]
    | _ => rfl

theorem notPrefix_negOut (ps : List Prm) (v : GoVal) :
    pureFunc "NotPrefix" ps v = (pureFunc "Prefix" ps v).map negOut := by
  unfold pureFunc
  simp only [Option.map, negOut]
  cases firstOfString ps with
  | none => rfl
  | some p =>
    cases v with
    | str n s => cases n <;> simp [okBool]
    | _ => rfl

theorem notSuffix_neg (ps : List Prm) (v : GoVal) :
    pureFunc "NotSuffix" ps v = (pureFunc "Suffix" ps v).map negOut := by
  unfold pureFunc
  simp only [Option.map, negOut]
  cases firstOfString ps with
  | none => rfl
  | some p =>
    cases v with
    | str n s => cases n <;> simp [okBool]
    | _ => rfl

/-- the count argument of the slicing functions, for a whole number below 2^31 -/
theorem stringPart_nat (s : Bytes) (k : Nat) (hk : k < 2147483647) (f : Bytes → Nat → Bytes) :
    stringPart [.num ⟨k, 0⟩] (.str false s) f = okStr (f s k) := by
  simp only [stringPart, firstOfNumber, prmNumbers, List.filterMap, List.length_singleton, bne_self_eq_false,
    Bool.false_eq_true, ↓reduceIte]
  have h1 : (⟨(k : Int), 0⟩ : Dec).isInteger = true := by simp [Dec.isInteger]
  have h2 : (⟨(k : Int), 0⟩ : Dec).isNegative = false := by simp [Dec.isNegative]
  have h3 : Dec.cmp ⟨(k : Int), 0⟩ ⟨2147483647, 0⟩ = .lt := by
    simp [Dec.cmp, Dec.rescalePair, compare, compareOfLessAndEq]; omega
  have h4 : (⟨(k : Int), 0⟩ : Dec).intPart.toNat = k := by
    simp [Dec.intPart, Dec.rescale]
    have : k % 18446744073709551616 = k := Nat.mod_eq_of_lt (by omega)
    simp [this]
    split <;> omega
  simp [h1, h2, h3, h4]

/-- C18: Left / Right / TrimLeft / TrimRight are take / drop, clamped at the length -/
theorem left_take (s : Bytes) (k : Nat) (hk : k < 2147483647) :
    pureFunc "Left" [.num ⟨k, 0⟩] (.str false s) = some (okStr (s.take k)) := by
  unfold pureFunc
  simp only [stringPart_nat s k hk]
  split
  · rename_i hlt; simp [List.take_of_length_le (Nat.le_of_lt hlt)]
  · rfl

theorem right_drop (s : Bytes) (k : Nat) (hk : k < 2147483647) :
    pureFunc "Right" [.num ⟨k, 0⟩] (.str false s) = some (okStr (s.drop (s.length - k))) := by
  unfold pureFunc
  simp only [stringPart_nat s k hk]
  split
  · rename_i hlt
    have : s.length - k = 0 := by omega
    simp [this]
  · rfl

theorem trimLeft_drop (s : Bytes) (k : Nat) (hk : k < 2147483647) :
    pureFunc "TrimLeft" [.num ⟨k, 0⟩] (.str false s) = some (okStr (s.drop k)) := by
  unfold pureFunc
  simp only [stringPart_nat s k hk]
  split
  · rename_i hle; simp [List.drop_of_length_le hle]
  · rfl

theorem trimRight_take (s : Bytes) (k : Nat) (hk : k < 2147483647) :
    pureFunc "TrimRight" [.num ⟨k, 0⟩] (.str false s) = some (okStr (s.take (s.length - k))) := by
  unfold pureFunc
  simp only [stringPart_nat s k hk]
  split
  · rename_i hle
    have : s.length - k = 0 := by omega
    simp [this]
  · rfl

/-- Left and TrimLeft split the string, as do TrimRight and Right: nothing is lost or duplicated -/
theorem left_trimLeft_partition (s : Bytes) (k : Nat) : s.take k ++ s.drop k = s := List.take_append_drop k s
theorem trimRight_right_partition (s : Bytes) (k : Nat) : s.take (s.length - k) ++ s.drop (s.length - k) = s :=
  List.take_append_drop _ s

/-- a negative or fractional count is an error, never a panic and never a string -/
theorem stringPart_negative (s : Bytes) (d : Dec) (hneg : d.isNegative = true) (f : Bytes → Nat → Bytes) :
    stringPart [.num d] (.str false s) f = .err := by
  simp only [stringPart, firstOfNumber, prmNumbers, List.filterMap, List.length_singleton, bne_self_eq_false,
    Bool.false_eq_true, ↓reduceIte]
  cases d.isInteger <;> simp [hneg]

theorem stringPart_fractional (s : Bytes) (d : Dec) (hfr : d.isInteger = false) (f : Bytes → Nat → Bytes) :
    stringPart [.num d] (.str false s) f = .err := by
  simp only [stringPart, firstOfNumber, prmNumbers, List.filterMap, List.length_singleton, bne_self_eq_false,
    Bool.false_eq_true, ↓reduceIte]
  simp [hfr]

-- non-vacuity: concrete instances
example : pureFunc "Contains" [.str [98, 99]] (.str false [97, 98, 99, 100]) = some (okBool true) :=
  (contains_true_iff _ _).mpr ⟨[97], [100], rfl⟩
example : pureFunc "Left" [.num ⟨2, 0⟩] (.str false [97, 98, 99]) = some (okStr [97, 98]) :=
  left_take [97, 98, 99] 2 (by omega)

#print axioms isInfix_iff
#print axioms contains_true_iff
#print axioms prefix_true_iff
#print axioms suffix_true_iff
#print axioms notContains_neg
#print axioms notPrefix_negOut
#print axioms notSuffix_neg
#print axioms left_take
#print axioms right_drop
#print axioms trimLeft_drop
#print axioms trimRight_take
#print axioms stringPart_negative
#print axioms stringPart_fractional
end Mp
