import Mp.JsonDoc
/-! C10 ∘ C01 — a key path applied to a document that the query itself parsed from JSON text: `$.t.ParseJSON().k1.….kn` on any data
    whose `t` holds the compact JSON text of a document d returns exactly what the path specification `pathSpec` returns on d - the
    statement of C01, transported through ParseJSON. Core-only. -/
namespace Mp.GoJson
open Mp.L2 (Doc pathSpec idents)

theorem parseJSON_name : String.fromUTF8! (ByteArray.mk (str "ParseJSON").toArray) = "ParseJSON" := by with_unfolding_all decide
theorem parseJSON_known : knownFuncs.contains "ParseJSON" = true := by decide

/-- the function step `.ParseJSON()` of the structural evaluator on a text that is not a numeral -/
theorem sPart_parseJSON (text : Bytes) (orig : GoVal) (hne : text.isEmpty = false) (hnum : Dec.ofString text = none) :
    sPart (.func (str "ParseJSON") [] .none) (.str false text) orig =
      (match unmarshalObject text with | none => .unmodelled | some none => .err | some (some m) => .ok m) := by
  unfold sPart
  simp only [isBadSel, Bool.false_eq_true, if_false, sParams]
  have hrecv : toDecimalIfNumber (objectAsMap (normalizeValue (.str false text))) = .str false text := by
    simp [normalizeValue, objectAsMap, toDecimalIfNumber, toDecimalCheck, RV.of, isEmptyValue, hne, RV.derefOnce, RV.kind, GoVal.kind, hnum]
  simp only [hrecv, parseJSON_name, parseJSON_known, Bool.not_true, Bool.false_eq_true, if_false]
  unfold pureFunc
  simp only [List.isEmpty_nil, Bool.not_true, Bool.false_eq_true, if_false, isEmptyValue, RV.of, hne]
  cases unmarshalObject text with
  | none => rfl
  | some o => cases o <;> rfl

/-- **C10 ∘ C01**: `$.t.ParseJSON().k1.….kn` on `{t: <the JSON text of d>}` is `pathSpec [k1,…,kn] d`: the value stored under those keys
    of d (matched without regard to case, projected across arrays in order) or key-not-found - for paths of any length and documents of
    any size (number-free, distinct keys, strings that need no escape; `hnum`: the text is not a numeral, which no text in braces is) -/
theorem parseJSON_then_path (t : Bytes) (ks : List Bytes) (vs : List Doc) (kp : List Bytes)
    (hwf : WF (.obj ks vs)) (hg : L2.Good (.obj ks vs)) (hkp : kp ≠ [])
    (hnum : Dec.ofString (render (ofDoc (.obj ks vs))) = none) :
    sPath (.mk true false (.ident t false :: .func (str "ParseJSON") [] .none :: idents kp))
        (.map .str false [t] [.str false (render (ofDoc (.obj ks vs)))]) (.map .str false [t] [.str false (render (ofDoc (.obj ks vs)))]) =
      match pathSpec kp (.obj ks vs) with | some v => .ok (L2.render v) | none => .knf := by
  generalize hD : GoVal.map .str false [t] [.str false (render (ofDoc (.obj ks vs)))] = D
  have hne : (render (ofDoc (.obj ks vs))).isEmpty = false := by
    have : ofDoc (.obj ks vs) = .obj (ks.zip (ofDocs vs)) := by simp [ofDoc]
    rw [this]
    cases hz : ks.zip (ofDocs vs) with
    | nil => simp [render]
    | cons kv kvs => obtain ⟨k, v⟩ := kv; simp [render]
  have hident : identDo t D = .ok (.str false (render (ofDoc (.obj ks vs)))) := by
    subst hD
    simp [identDo, RV.of, RV.derefOnce, RV.kind, GoVal.kind, findMapKey, numberKindsToDecimal, isEmptyValue, hne]
  have hfunc : sPart (.func (str "ParseJSON") [] .none) (.str false (render (ofDoc (.obj ks vs)))) D = .ok (L2.render (.obj ks vs)) := by
    rw [sPart_parseJSON _ D hne hnum, parseJSON_of_document ks vs hwf]
  unfold sPath
  simp only [Bool.and_false, Bool.false_eq_true, if_false, if_true]
  unfold sParts
  simp only [L2.sPart_ident', Option.isSome_none, Bool.false_and, Bool.false_eq_true, if_false, hident]
  unfold sParts
  simp only [Option.isSome_some, isNilVal, Bool.or_false, Bool.and_false, Bool.false_eq_true, if_false, hfunc, Option.getD_some]
  have htail := L2.tail_refines L2.mapCarrier D kp (.obj ks vs) hg hkp
  cases hps : pathSpec kp (.obj ks vs) with
  | none => rw [hps] at htail; simpa [L2.mapCarrier, L2.isNull, L2.render] using htail
  | some v => rw [hps] at htail; simpa [L2.mapCarrier, L2.isNull, L2.render] using htail

/-- non-vacuity: `$.t.ParseJSON().l.K` on `{t: "{\"l\":[{\"k\":\"a\"},{\"z\":true},{\"K\":null}]}"}`: the hypotheses hold and the answer is the
    projection of the re-cased key across the array -/
def exJ : Doc := .obj [[108]] [.arr [.obj [[107]] [.str [97]], .obj [[122]] [.bool true], .obj [[75]] [.null]]]
example : pathSpec [[108], [75]] exJ = some (.arr [.str [97], .null]) := by rfl
example : WF exJ := by simp [exJ, WF, WFs, Safe, SafeByte]
example : Dec.ofString (render (ofDoc exJ)) = none := by with_unfolding_all decide
example : L2.Good exJ := by
  unfold exJ
  apply L2.good_single _ _ (by simp)
  apply L2.Good.arr
  intro x hx
  simp at hx
  rcases hx with h | h | h <;> subst h
  · exact L2.good_single _ _ (by simp) (L2.Good.str _ (by with_unfolding_all decide))
  · exact L2.good_single _ _ (by simp) (L2.Good.bool _)
  · exact L2.good_single _ _ (by simp) L2.Good.null

#print axioms parseJSON_then_path
#print axioms sPart_parseJSON
end Mp.GoJson
