import Mp.Generated.Interface
/-! The interface of the modelled Go code to everything that is NOT modelled, pinned. `Mp.Generated.Interface` is regenerated from
    /repo on every run (harness/extract_iface.go); the right-hand sides below are what the model in this directory was written and
    validated against (written by bin/pin-interface). A theorem here fails to check as soon as the source imports another package,
    refers to another library function, reads a selector the package does not declare (a struct tag, a method of a library type),
    gains or loses a type with a Do method, changes a field of an operation struct, or changes who calls whom inside the package. -/
namespace Mp.InterfaceChecks
open Mp.Generated

theorem imports_pinned : imports = ["cuelang.org/go/cue", "cuelang.org/go/cue/ast", "cuelang.org/go/cue/cuecontext", "encoding/json", "fmt", "github.com/basgys/goxml2json", "github.com/google/go-cmp/cmp", "github.com/google/go-cmp/cmp/cmpopts", "github.com/google/uuid", "github.com/pelletier/go-toml/v2", "github.com/pkg/errors", "github.com/shopspring/decimal", "gopkg.in/yaml.v2", "io", "math", "math/big", "reflect", "regexp", "sort", "strconv", "strings", "sync", "text/scanner", "unicode"] := rfl

theorem ext_eval : extEval = [".Bool", ".CanInterface", ".Convert", ".ConvertibleTo", ".Div", ".Elem", ".Equal", ".Field", ".Float", ".GreaterThan", ".GreaterThanOrEqual", ".Index", ".Int", ".IntPart", ".Interface", ".IsExported", ".IsInteger", ".IsNegative", ".IsNil", ".IsValid", ".IsZero", ".Key", ".Kind", ".Len", ".LessThan", ".LessThanOrEqual", ".MapIndex", ".MapKeys", ".MapRange", ".MatchString", ".Mul", ".Next", ".NumField", ".QuoRem", ".ReplaceAllString", ".SetMapIndex", ".SetUint64", ".Sub", ".Uint", ".Unmarshal", ".key", ".val", "encoding/json.Marshal", "encoding/json.Unmarshal", "fmt.Errorf", "fmt.Sprint", "fmt.Sprintf", "github.com/basgys/goxml2json.Convert", "github.com/google/go-cmp/cmp.Equal", "github.com/google/go-cmp/cmp.Exporter", "github.com/google/go-cmp/cmp/cmpopts.EquateEmpty", "github.com/pkg/errors.Is", "github.com/shopspring/decimal.Avg", "github.com/shopspring/decimal.Decimal", "github.com/shopspring/decimal.Max", "github.com/shopspring/decimal.Min", "github.com/shopspring/decimal.NewFromBigInt", "github.com/shopspring/decimal.NewFromFloat", "github.com/shopspring/decimal.NewFromInt", "github.com/shopspring/decimal.NewFromString", "github.com/shopspring/decimal.Sum", "github.com/shopspring/decimal.Zero", "math.IsInf", "math.IsNaN", "math.MaxInt32", "math/big.Int", "reflect.Array", "reflect.Bool", "reflect.Chan", "reflect.Float32", "reflect.Float64", "reflect.Func", "reflect.Int", "reflect.Int16", "reflect.Int32", "reflect.Int64", "reflect.Int8", "reflect.Interface", "reflect.Invalid", "reflect.MakeMapWithSize", "reflect.Map", "reflect.Pointer", "reflect.Ptr", "reflect.Slice", "reflect.String", "reflect.Struct", "reflect.Type", "reflect.TypeOf", "reflect.Uint", "reflect.Uint16", "reflect.Uint32", "reflect.Uint64", "reflect.Uint8", "reflect.Uintptr", "reflect.Value", "reflect.ValueOf", "reflect.Zero", "regexp.Compile", "sort.SliceStable", "strings.Contains", "strings.EqualFold", "strings.HasPrefix", "strings.HasSuffix", "strings.NewReader", "strings.ReplaceAll"] := rfl

theorem calls_eval : callsEvalDigest = "1fed499ed4754a69" := rfl

theorem ext_parse : extParse = [".Column", ".Get", ".Init", ".Line", ".Mode", ".Peek", ".Pos", ".Put", ".Seek", "encoding/json.Marshal", "fmt.Errorf", "fmt.Sprint", "fmt.Sprintf", "github.com/pkg/errors.New", "github.com/pkg/errors.Wrap", "github.com/shopspring/decimal.MarshalJSONWithoutQuotes", "github.com/shopspring/decimal.NewFromFloat", "io.EOF", "io.SeekStart", "math.IsInf", "math.IsNaN", "strconv.ParseFloat", "strings.HasPrefix", "strings.HasSuffix", "strings.Join", "strings.NewReader", "strings.Repeat", "strings.Replace", "text/scanner.Char", "text/scanner.EOF", "text/scanner.Float", "text/scanner.Ident", "text/scanner.Int", "text/scanner.RawString", "text/scanner.ScanChars", "text/scanner.ScanComments", "text/scanner.ScanIdents", "text/scanner.ScanRawStrings", "text/scanner.ScanStrings", "text/scanner.Scanner", "text/scanner.SkipComments", "text/scanner.String", "unicode.IsPrint"] := rfl

theorem calls_parse : callsParseDigest = "45c96cec32e9c9b8" := rfl

theorem ext_cue : extCue = [".CompileString", ".ConstraintType", ".IncompleteKind", ".Kind", ".LabelType", ".List", ".Lock", ".LookupPath", ".Next", ".Optional", ".Selector", ".Unlock", ".Unquoted", "cuelang.org/go/cue.All", "cuelang.org/go/cue.AnyIndex", "cuelang.org/go/cue.BoolKind", "cuelang.org/go/cue.BottomKind", "cuelang.org/go/cue.BytesKind", "cuelang.org/go/cue.FloatKind", "cuelang.org/go/cue.Hid", "cuelang.org/go/cue.IntKind", "cuelang.org/go/cue.Iterator", "cuelang.org/go/cue.Kind", "cuelang.org/go/cue.ListKind", "cuelang.org/go/cue.MakePath", "cuelang.org/go/cue.NumberKind", "cuelang.org/go/cue.PatternConstraint", "cuelang.org/go/cue.Str", "cuelang.org/go/cue.StringKind", "cuelang.org/go/cue.StringLabel", "cuelang.org/go/cue.StructKind", "cuelang.org/go/cue.TopKind", "cuelang.org/go/cue.Value", "cuelang.org/go/cue/ast.IsValidIdent", "cuelang.org/go/cue/cuecontext.New", "encoding/json.Marshal", "fmt.Errorf", "fmt.Sprint", "fmt.Sprintf", "github.com/google/uuid.New", "sort.Strings", "strings.HasPrefix", "strings.HasSuffix", "strings.Join", "strings.ReplaceAll", "strings.TrimPrefix", "strings.TrimSuffix", "unicode.IsLower", "unicode.IsUpper"] := rfl

theorem calls_cue : callsCueDigest = "d44e3b9eaf64d248" := rfl

theorem ext_ana : extAna = ["reflect.DeepEqual", "sort.Strings", "strings.Join"] := rfl

theorem calls_ana : callsAnaDigest = "90537f19276fc1e8" := rfl

theorem operation_types : operationImplementors = ["opFilter", "opFunction", "opLogicalOperation", "opPath", "opPathIdent"] := rfl

theorem op_struct_fields : opStructFields = [("FP_Bool", ["Value bool"]),
  ("FP_LogicalOperation", ["Value *opLogicalOperation"]),
  ("FP_Number", ["Value decimal.Decimal"]),
  ("FP_Path", ["Value *opPath"]),
  ("FP_String", ["Value string"]),
  ("opCommon", ["userString string", "propagateNull bool"]),
  ("opFilter", ["LogicalOperation *opLogicalOperation", "embedded opCommon"]),
  ("opFunction", ["IsInvalid bool", "FunctionType FT_FunctionType", "Params FunctionParameterTypes", "embedded opCommon"]),
  ("opLogicalOperation", ["IsInvalid bool", "IsFilter bool", "LogicalOperationType LOT_LogicalOperationType", "Operations []Operation", "embedded opCommon"]),
  ("opPath", ["IsInvalid bool", "StartAtRoot bool", "IsFilter bool", "MustEndInFunctionOrIdent bool", "Operations []Operation", "embedded opCommon"]),
  ("opPathIdent", ["IdentName string", "embedded opCommon"]),
  ("scanner", ["sx *sc.Scanner", "err error", "src *errCapturingReader"])] := rfl

/-! axiom audit (one line per theorem: a theorem that no longer checks is missing from the output) -/
#print axioms imports_pinned
#print axioms ext_eval
#print axioms calls_eval
#print axioms ext_parse
#print axioms calls_parse
#print axioms ext_cue
#print axioms calls_cue
#print axioms ext_ana
#print axioms calls_ana
#print axioms operation_types
#print axioms op_struct_fields
end Mp.InterfaceChecks
