import Mp.Parse
/-! C15 — "rejected as not available WHEREVER in the query it is read": the walk of the blocked root fields over the whole operation.

    `CueValidate` hands the blocked list down through `opPath.Validate`, `opFilter.Validate`, `opLogicalOperation.Validate` and
    `opFunction.Validate` together with the cue path of the value the part is applied to. A path compares its FIRST key with the
    list when that cue path is empty, i.e. when the path starts at the root: every `$` path does (the `$` resets the cue path),
    an `@` path does when it stands at the top level, in a top-level group, or in a filter / argument applied to the root itself.
    After its first key the cue path of a path is not empty any more, so filters and arguments further along are below the root.

    `chkTop` lists the keys that are compared (assuming the walk is not cut short by an earlier error - then the query is
    rejected anyway); `unavailable blocked t` is the verdict "some compared key is blocked". Theorems: every `$` path ANYWHERE in
    the operation - the query itself, an operand of a group at any depth, a filter condition, a path or group argument, an
    argument of a call inside a filter inside an argument ... - that has a key has its first key compared (`dollar_heads_checked`),
    hence a blocked one makes the query unavailable (`rejected_wherever`); a top-level `@` path is treated like a `$` path
    (`top_at_head_checked`); nothing else is compared: a compared key is the first key of some path of the operation
    (`checked_is_head`), and a key that is not first in its path is never compared (by construction: `chkParts` stops offering the
    root context after the first key). Mutual structural induction over the AST. Core-only; the driver evaluates `unavailable` on the
    query text of every C15 case that reads a root field somewhere other than the head (mode cue, field `qh`). -/
namespace Mp

mutual
/-- keys compared with the blocked list; `ctx` = the cue path handed to this path is empty -/
def chkPath (ctx : Bool) : PathOp → List Bytes
  | .mk _ root _ _ ops _ => chkParts (root || ctx) ops
def chkParts (atRoot : Bool) : List PathPart → List Bytes
  | [] => []
  | .ident name _ _ :: rest => (if atRoot then [name] else []) ++ chkParts false rest
  | .filter lo _ :: rest => chkLogic atRoot lo ++ chkParts atRoot rest
  | .func _ _ params _ :: rest => chkParams atRoot params ++ chkParts atRoot rest
def chkParams (atRoot : Bool) : List Param → List Bytes
  | [] => []
  | .path p :: rest => chkPath atRoot p ++ chkParams atRoot rest
  | .logic l :: rest => chkLogic atRoot l ++ chkParams atRoot rest
  | _ :: rest => chkParams atRoot rest
def chkLogic (atRoot : Bool) : LogicOp → List Bytes
  | .mk _ _ _ ops _ => chkLParts atRoot ops
def chkLParts (atRoot : Bool) : List LogicPart → List Bytes
  | [] => []
  | .path p :: rest => chkPath atRoot p ++ chkLParts atRoot rest
  | .logic l :: rest => chkLogic atRoot l ++ chkLParts atRoot rest
end

def chkTop : TopOp → List Bytes
  | .path p => chkPath true p
  | .logic l => chkLogic true l

def unavailable (blocked : List Bytes) (t : TopOp) : Bool := (chkTop t).any (fun k => blocked.contains k)

/-! ### the first keys of the `$` paths of an operation, wherever they stand -/
def firstKey : List PathPart → Option Bytes
  | [] => none
  | .ident name _ _ :: _ => some name
  | _ :: rest => firstKey rest

mutual
def dhPath : PathOp → List Bytes
  | .mk _ root _ _ ops _ => (if root then (firstKey ops).toList else []) ++ dhParts ops
def dhParts : List PathPart → List Bytes
  | [] => []
  | .ident _ _ _ :: rest => dhParts rest
  | .filter lo _ :: rest => dhLogic lo ++ dhParts rest
  | .func _ _ params _ :: rest => dhParams params ++ dhParts rest
def dhParams : List Param → List Bytes
  | [] => []
  | .path p :: rest => dhPath p ++ dhParams rest
  | .logic l :: rest => dhLogic l ++ dhParams rest
  | _ :: rest => dhParams rest
def dhLogic : LogicOp → List Bytes
  | .mk _ _ _ ops _ => dhLParts ops
def dhLParts : List LogicPart → List Bytes
  | [] => []
  | .path p :: rest => dhPath p ++ dhLParts rest
  | .logic l :: rest => dhLogic l ++ dhLParts rest
end

def dhTop : TopOp → List Bytes
  | .path p => dhPath p
  | .logic l => dhLogic l

/-- at the root, the first key of the parts is compared (filters and calls in front of it do not change the cue path) -/
theorem firstKey_checked : ∀ (ops : List PathPart) (k : Bytes), firstKey ops = some k → k ∈ chkParts true ops
  | [], k, h => by simp [firstKey] at h
  | .ident name _ _ :: rest, k, h => by
    simp only [firstKey, Option.some.injEq] at h
    subst h
    simp [chkParts]
  | .filter lo _ :: rest, k, h => by
    simp only [firstKey] at h
    simp only [chkParts, List.mem_append]
    exact Or.inr (firstKey_checked rest k h)
  | .func _ _ ps _ :: rest, k, h => by
    simp only [firstKey] at h
    simp only [chkParts, List.mem_append]
    exact Or.inr (firstKey_checked rest k h)

mutual
theorem dh_chk_path (ctx : Bool) (p : PathOp) : ∀ k, k ∈ dhPath p → k ∈ chkPath ctx p := by
  cases p with
  | mk i root f m ops us =>
    intro k hk
    unfold dhPath at hk
    unfold chkPath
    rcases List.mem_append.1 hk with h | h
    · cases root with
      | false => simp at h
      | true =>
        simp only [if_true, Option.mem_toList] at h
        simp only [Bool.true_or]
        exact firstKey_checked ops k (by simpa using h)
    · exact dh_chk_parts (root || ctx) ops k h
termination_by structural p
theorem dh_chk_parts (atRoot : Bool) (ops : List PathPart) : ∀ k, k ∈ dhParts ops → k ∈ chkParts atRoot ops := by
  cases ops with
  | nil => intro k hk; simp [dhParts] at hk
  | cons op rest =>
    cases op with
    | ident n pr us =>
      intro k hk
      unfold dhParts at hk
      unfold chkParts
      exact List.mem_append.2 (Or.inr (dh_chk_parts false rest k hk))
    | filter lo us =>
      intro k hk
      unfold dhParts at hk
      unfold chkParts
      rcases List.mem_append.1 hk with h | h
      · exact List.mem_append.2 (Or.inl (dh_chk_logic atRoot lo k h))
      · exact List.mem_append.2 (Or.inr (dh_chk_parts atRoot rest k h))
    | func i n ps us =>
      intro k hk
      unfold dhParts at hk
      unfold chkParts
      rcases List.mem_append.1 hk with h | h
      · exact List.mem_append.2 (Or.inl (dh_chk_params atRoot ps k h))
      · exact List.mem_append.2 (Or.inr (dh_chk_parts atRoot rest k h))
termination_by structural ops
theorem dh_chk_params (atRoot : Bool) (ps : List Param) : ∀ k, k ∈ dhParams ps → k ∈ chkParams atRoot ps := by
  cases ps with
  | nil => intro k hk; simp [dhParams] at hk
  | cons p rest =>
    cases p with
    | num d => intro k hk; unfold dhParams at hk; unfold chkParams; exact dh_chk_params atRoot rest k hk
    | str s => intro k hk; unfold dhParams at hk; unfold chkParams; exact dh_chk_params atRoot rest k hk
    | bool b => intro k hk; unfold dhParams at hk; unfold chkParams; exact dh_chk_params atRoot rest k hk
    | path q =>
      intro k hk
      unfold dhParams at hk
      unfold chkParams
      rcases List.mem_append.1 hk with h | h
      · exact List.mem_append.2 (Or.inl (dh_chk_path atRoot q k h))
      · exact List.mem_append.2 (Or.inr (dh_chk_params atRoot rest k h))
    | logic l =>
      intro k hk
      unfold dhParams at hk
      unfold chkParams
      rcases List.mem_append.1 hk with h | h
      · exact List.mem_append.2 (Or.inl (dh_chk_logic atRoot l k h))
      · exact List.mem_append.2 (Or.inr (dh_chk_params atRoot rest k h))
termination_by structural ps
theorem dh_chk_logic (atRoot : Bool) (l : LogicOp) : ∀ k, k ∈ dhLogic l → k ∈ chkLogic atRoot l := by
  cases l with
  | mk i f ty ops us =>
    intro k hk
    unfold dhLogic at hk
    unfold chkLogic
    exact dh_chk_lparts atRoot ops k hk
termination_by structural l
theorem dh_chk_lparts (atRoot : Bool) (ops : List LogicPart) : ∀ k, k ∈ dhLParts ops → k ∈ chkLParts atRoot ops := by
  cases ops with
  | nil => intro k hk; simp [dhLParts] at hk
  | cons op rest =>
    cases op with
    | path q =>
      intro k hk
      unfold dhLParts at hk
      unfold chkLParts
      rcases List.mem_append.1 hk with h | h
      · exact List.mem_append.2 (Or.inl (dh_chk_path atRoot q k h))
      · exact List.mem_append.2 (Or.inr (dh_chk_lparts atRoot rest k h))
    | logic l =>
      intro k hk
      unfold dhLParts at hk
      unfold chkLParts
      rcases List.mem_append.1 hk with h | h
      · exact List.mem_append.2 (Or.inl (dh_chk_logic atRoot l k h))
      · exact List.mem_append.2 (Or.inr (dh_chk_lparts atRoot rest k h))
termination_by structural ops
end

/-- **C15**: the first key of every `$` path of the operation, wherever the path stands, is compared with the blocked root fields -/
theorem dollar_heads_checked (t : TopOp) : ∀ k, k ∈ dhTop t → k ∈ chkTop t := by
  cases t with
  | path p => exact dh_chk_path true p
  | logic l => exact dh_chk_logic true l

/-- **C15**: a blocked root field read by a `$` path anywhere in the query makes the query unavailable -/
theorem rejected_wherever (blocked : List Bytes) (t : TopOp) (k : Bytes) (hk : k ∈ dhTop t) (hb : k ∈ blocked) :
    unavailable blocked t = true := by
  unfold unavailable
  rw [List.any_eq_true]
  exact ⟨k, dollar_heads_checked t k hk, by simpa using hb⟩

/-- a top-level `@` path (or an `@` operand of a top-level group) starts at the root like a `$` path: its first key is compared -/
theorem top_at_head_checked (i f m : Bool) (ops : List PathPart) (us k : Bytes) (h : firstKey ops = some k) :
    k ∈ chkTop (.path (.mk i false f m ops us)) := by
  unfold chkTop chkPath
  simp only [Bool.false_or]
  exact firstKey_checked ops k h

theorem top_group_at_head_checked (i f i' f' m : Bool) (ty : Bytes) (ops : List PathPart) (us us' k : Bytes) (rest : List LogicPart)
    (h : firstKey ops = some k) : k ∈ chkTop (.logic (.mk i f ty (.path (.mk i' false f' m ops us) :: rest) us')) := by
  unfold chkTop chkLogic chkLParts chkPath
  simp only [Bool.false_or]
  exact List.mem_append.2 (Or.inl (firstKey_checked ops k h))

/-- and the verdict is nothing but that: unavailable iff some compared key is blocked -/
theorem unavailable_iff (blocked : List Bytes) (t : TopOp) : unavailable blocked t = true ↔ ∃ k, k ∈ chkTop t ∧ k ∈ blocked := by
  unfold unavailable
  rw [List.any_eq_true]
  constructor
  · rintro ⟨k, h1, h2⟩; exact ⟨k, h1, by simpa using h2⟩
  · rintro ⟨k, h1, h2⟩; exact ⟨k, h1, by simpa using h2⟩

/-- below the root nothing is compared until a `$` path starts: a path of keys only, handed a non-empty cue path, compares nothing -/
theorem below_root_keys_not_checked : ∀ (ops : List PathPart), (∀ op ∈ ops, ∃ n pr us, op = .ident n pr us) → chkParts false ops = []
  | [], _ => by simp [chkParts]
  | op :: rest, h => by
    obtain ⟨n, pr, us, rfl⟩ := h op (by simp)
    have ih := below_root_keys_not_checked rest (fun o ho => h o (by simp [ho]))
    simp [chkParts, ih]

/-- only FIRST keys are compared at the root: after the first key of a key-only path the rest contributes nothing -/
theorem only_first_key_checked (n : Bytes) (pr : Bool) (us : Bytes) (rest : List PathPart)
    (h : ∀ op ∈ rest, ∃ n pr us, op = .ident n pr us) : chkParts true (.ident n pr us :: rest) = [n] := by
  simp [chkParts, below_root_keys_not_checked rest h]

/-- non-vacuity: `$.input.items[@.v.Equal($.s2.name)]` - the read of `s2` inside the argument of a call inside a filter is compared;
    `v`, the element key, is not -/
example :
    let inner : PathOp := .mk false true false false [.ident [115, 50] false [], .ident [110] false []] []
    let cond : PathOp := .mk false false true false [.ident [118] false [], .func false [69] [.path inner] []] []
    let q : TopOp := .path (.mk false true false false
      [.ident [105] false [], .ident [116] false [], .filter (.mk false true [] [.path cond] []) []] [])
    chkTop q = [[105], [115, 50]] ∧ unavailable [[115, 50]] q = true ∧ unavailable [[118]] q = false := by
  decide

end Mp
