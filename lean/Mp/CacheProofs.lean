/-! Prototype: C16 — the two validation caches are unobservable, for every call history. Core-only. -/
namespace Mp

variable {Op Cue R : Type}

structure Caches (Op Cue : Type) where
  ops : List (String × Op)
  cues : List (String × Cue)

def Caches.empty : Caches Op Cue := ⟨[], []⟩

def find? {α} (k : String) : List (String × α) → Option α
  | [] => none
  | (k', v) :: t => if k' == k then some v else find? k t

inductive Res (R : Type) | missing | parseErr | cueErr | done (r : R)
deriving DecidableEq

structure World (Op Cue R : Type) where
  parse : String → Option Op          -- none: ParseString returned an error
  compile : String → Option Cue       -- none: the schema does not compile
  validate : Op → Cue → String → R    -- everything after the caches: a function of its arguments

/-- a memoised lookup as written in CueValidate: on a miss compute; an error returns before anything is stored -/
def memo {α} (f : String → Option α) (k : String) (l : List (String × α)) : Option α × List (String × α) :=
  match find? k l with
  | some v => (some v, l)
  | none => match f k with
    | none => (none, l)
    | some v => (some v, (k, v) :: l)

def Good {α} (f : String → Option α) (l : List (String × α)) : Prop := ∀ k v, find? k l = some v → f k = some v

theorem find_cons {α} (k k' : String) (v : α) (l : List (String × α)) :
    find? k ((k', v) :: l) = if k' == k then some v else find? k l := rfl

theorem memo_spec {α} (f : String → Option α) (k : String) (l : List (String × α)) (h : Good f l) :
    (memo f k l).1 = f k ∧ Good f (memo f k l).2 := by
  unfold memo
  cases hf : find? k l with
  | some v => exact ⟨(h k v hf).symm, h⟩
  | none =>
    cases hk : f k with
    | none => exact ⟨rfl, h⟩
    | some v =>
      refine ⟨rfl, ?_⟩
      intro k' v' hk'
      rw [find_cons] at hk'
      by_cases e : (k == k') = true
      · rw [if_pos e] at hk'
        have : k = k' := beq_iff_eq.mp e
        subst this
        cases hk'
        exact hk
      · rw [if_neg e] at hk'
        exact h k' v' hk'

/-- CueValidate as written -/
def step (W : World Op Cue R) (c : Caches Op Cue) (q s cp : String) : Res R × Caches Op Cue :=
  if q == "" || s == "" then (.missing, c) else
  let r1 := memo W.parse q c.ops
  match r1.1 with
  | none => (.parseErr, { c with ops := r1.2 })
  | some op =>
    let r2 := memo W.compile s c.cues
    match r2.1 with
    | none => (.cueErr, { ops := r1.2, cues := r2.2 })
    | some v => (.done (W.validate op v cp), { ops := r1.2, cues := r2.2 })

/-- the same call with no caches at all -/
def pureCall (W : World Op Cue R) (q s cp : String) : Res R :=
  if q == "" || s == "" then .missing else
  match W.parse q with
  | none => .parseErr
  | some op => match W.compile s with
    | none => .cueErr
    | some v => .done (W.validate op v cp)

def Inv (W : World Op Cue R) (c : Caches Op Cue) : Prop := Good W.parse c.ops ∧ Good W.compile c.cues

theorem step_spec (W : World Op Cue R) (c : Caches Op Cue) (hc : Inv W c) (q s cp : String) :
    (step W c q s cp).1 = pureCall W q s cp ∧ Inv W (step W c q s cp).2 := by
  unfold step pureCall
  by_cases hm : (q == "" || s == "") = true
  · rw [if_pos hm, if_pos hm]; exact ⟨rfl, hc⟩
  · rw [if_neg hm, if_neg hm]
    obtain ⟨h1, g1⟩ := memo_spec W.parse q c.ops hc.1
    obtain ⟨h2, g2⟩ := memo_spec W.compile s c.cues hc.2
    simp only [h1, h2]
    cases W.parse q with
    | none => exact ⟨rfl, g1, hc.2⟩
    | some op =>
      cases W.compile s with
      | none => exact ⟨rfl, g1, g2⟩
      | some v => exact ⟨rfl, g1, g2⟩

/-- run a history of calls, return the last state -/
def runHist (W : World Op Cue R) : Caches Op Cue → List (String × String × String) → Caches Op Cue
  | c, [] => c
  | c, (q, s, cp) :: t => runHist W (step W c q s cp).2 t

theorem inv_hist (W : World Op Cue R) : ∀ (h : List (String × String × String)) (c : Caches Op Cue), Inv W c → Inv W (runHist W c h) := by
  intro h
  induction h with
  | nil => intro c hc; exact hc
  | cons x t ih => intro c hc; obtain ⟨q, s, cp⟩ := x; exact ih _ (step_spec W c hc q s cp).2

theorem inv_empty (W : World Op Cue R) : Inv W Caches.empty := by
  constructor <;> (intro k v h; simp [Caches.empty, find?] at h)

/-- C16: after ANY history of earlier calls, a call returns what it returns in a fresh process. -/
theorem cache_transparent (W : World Op Cue R) (hist : List (String × String × String)) (q s cp : String) :
    (step W (runHist W Caches.empty hist) q s cp).1 = pureCall W q s cp :=
  (step_spec W _ (inv_hist W hist _ (inv_empty W)) q s cp).1

example : (step (⟨fun q => if q == "bad" then none else some q.length, fun s => some s, fun n s cp => (n, s, cp)⟩ : World Nat String (Nat × String × String))
    Caches.empty "$.a" "x: int" "").1 = .done (3, "x: int", "") := by decide

#print axioms cache_transparent
end Mp
