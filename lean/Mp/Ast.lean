import Mp.F64
namespace Mp

/-- number literal as stored in FP_Number: decimal coefficient and exponent -/
structure Dec where
  coef : Int
  exp : Int
deriving Repr, DecidableEq, Inhabited

mutual
inductive PathOp where
  | mk (isInvalid startAtRoot isFilter mustEnd : Bool) (ops : List PathPart) (us : Bytes)
inductive PathPart where
  | ident (name : Bytes) (prop : Bool) (us : Bytes)
  | filter (lo : LogicOp) (us : Bytes)
  | func (isInvalid : Bool) (name : Bytes) (params : List Param) (us : Bytes)
inductive LogicOp where
  | mk (isInvalid isFilter : Bool) (ty : Bytes) (ops : List LogicPart) (us : Bytes)
inductive LogicPart where
  | path (p : PathOp)
  | logic (l : LogicOp)
inductive Param where
  | num (d : Dec)
  | str (s : Bytes)
  | bool (b : Bool)
  | path (p : PathOp)
  | logic (l : LogicOp)
end

inductive TopOp where
  | path (p : PathOp)
  | logic (l : LogicOp)

def PathOp.us : PathOp → Bytes | .mk _ _ _ _ _ us => us
def LogicOp.us : LogicOp → Bytes | .mk _ _ _ _ us => us
def PathPart.us : PathPart → Bytes
  | .ident _ _ us => us | .filter _ us => us | .func _ _ _ us => us

end Mp
