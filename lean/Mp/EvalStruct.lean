import Mp.SprintStruct
import Mp.EvalS
/-! C09 — "evaluates to the same result on every data value": evaluation is a function of the STRUCTURE of an operation alone.
    The evaluator of the model runs on the elaborated tree (`elabPath` / `elabLogic`, `Mp/EvalS.lean`); elaboration never looks at
    the text the parser recorded in a node (nor at the `IsInvalid` / `MustEndInFunctionOrIdent` marks), at any depth - also not inside
    path and group arguments, filters and the literal a `Select` call carries. Hence two operations of the same structure (equal after
    `erPath` / `erLogic`) elaborate to the same tree and so evaluate to the same outcome on every pair of data values: the
    "evaluates to the same result" clause of the property follows from its "same structure" clause, as the fixed-point clause does
    (`sprint_of_same_structure`). Mutual structural induction over the AST. Core-only. -/
namespace Mp

def isPL : Param → Bool | .path _ => true | .logic _ => true | _ => false

theorem isPL_erParam (p : Param) : isPL (erParam p) = isPL p := by
  cases p <;> simp [erParam, isPL]

theorem any_erParams : ∀ (ps : List Param), (erParams ps).any isPL = ps.any isPL
  | [] => by simp [erParams]
  | p :: ps => by
    have e : erParams (p :: ps) = erParam p :: erParams ps := by simp only [erParams]
    rw [e, List.any_cons, List.any_cons, isPL_erParam, any_erParams ps]

/-- the literal a Select call carries survives the erasure: the argument list is one string literal before iff it is after -/
theorem erParams_single_str (ps : List Param) (q : Bytes) : erParams ps = [.str q] ↔ ps = [.str q] := by
  cases ps with
  | nil => simp [erParams]
  | cons p ps =>
    have e : erParams (p :: ps) = erParam p :: erParams ps := by simp only [erParams]
    rw [e]
    cases ps with
    | nil =>
      have e0 : erParams [] = [] := by simp only [erParams]
      rw [e0]
      cases p <;> simp [erParam]
    | cons r rs =>
      have e1 : erParams (r :: rs) = erParam r :: erParams rs := by simp only [erParams]
      rw [e1]; simp

/-- what `Select` will run is decided by the name and the argument list; the erasure changes neither -/
def selOf (T : Tables) (fuel : Nat) (name : Bytes) (params : List Param) : ESel :=
  if name != str "Select" then .none else
  if params.any (fun p => match p with | .path _ => true | .logic _ => true | _ => false) then .dyn else
  match fuel, params with
  | fuel'+1, [.str q] =>
    match (parse T q).1 with
    | .op (.path p) => .path (elabPath T (min fuel' q.length) p)
    | .op (.logic l) => .logic (elabLogic T (min fuel' q.length) l)
    | _ => .bad
  | _, _ => .bad

theorem isPL_fun : (fun p : Param => match p with | .path _ => true | .logic _ => true | _ => false) = isPL := by
  funext p; cases p <;> rfl

theorem elabPart_func_sel (T : Tables) (fuel : Nat) (i : Bool) (n : Bytes) (ps : List Param) (us : Bytes) :
    elabPart T fuel (.func i n ps us) = .func n (elabParams T fuel ps) (selOf T fuel n ps) := by
  unfold elabPart selOf; rfl

theorem selOf_er (T : Tables) (fuel : Nat) (n : Bytes) (ps : List Param) : selOf T fuel n (erParams ps) = selOf T fuel n ps := by
  unfold selOf
  rw [isPL_fun, any_erParams]
  by_cases hn : (n != str "Select") = true
  · simp only [hn, if_true]
  · simp only [hn]
    by_cases ha : ps.any isPL = true
    · simp only [ha, if_true]
    · simp only [ha]
      cases fuel with
      | zero => rfl
      | succ f =>
        by_cases hq : ∃ q, ps = [.str q]
        · obtain ⟨q, rfl⟩ := hq
          have : erParams [Param.str q] = [.str q] := (erParams_single_str _ q).2 rfl
          rw [this]
        · have h1 : ∀ q, ps ≠ [.str q] := fun q h => hq ⟨q, h⟩
          have h2 : ∀ q, erParams ps ≠ [.str q] := fun q h => h1 q ((erParams_single_str ps q).1 h)
          have l1 : ∀ (qs : List Param), (∀ q, qs ≠ [.str q]) →
              (match f + 1, qs with
                | fuel'+1, [.str q] =>
                  (match (parse T q).1 with
                  | .op (.path p) => ESel.path (elabPath T (min fuel' q.length) p)
                  | .op (.logic l) => ESel.logic (elabLogic T (min fuel' q.length) l)
                  | _ => ESel.bad)
                | _, _ => ESel.bad) = ESel.bad := by
            intro qs hqs
            split
            · exact absurd rfl (hqs _)
            · rfl
          rw [l1 _ h2, l1 _ h1]

mutual
theorem elab_erPath (T : Tables) (fuel : Nat) (p : PathOp) : elabPath T fuel (erPath p) = elabPath T fuel p := by
  cases p with
  | mk i r f m ops us => unfold erPath elabPath; rw [elab_erParts T fuel ops]
termination_by structural p
theorem elab_erParts (T : Tables) (fuel : Nat) (ps : List PathPart) : elabParts T fuel (erParts ps) = elabParts T fuel ps := by
  cases ps with
  | nil => rfl
  | cons p ps => unfold erParts elabParts; rw [elab_erPart T fuel p, elab_erParts T fuel ps]
termination_by structural ps
theorem elab_erPart (T : Tables) (fuel : Nat) (p : PathPart) : elabPart T fuel (erPart p) = elabPart T fuel p := by
  cases p with
  | ident n pr us => unfold erPart elabPart; rfl
  | filter lo us => unfold erPart elabPart; rw [elab_erLogic T fuel lo]
  | func i n ps us =>
    unfold erPart
    rw [elabPart_func_sel, elabPart_func_sel, elab_erParams T fuel ps, selOf_er]
termination_by structural p
theorem elab_erParams (T : Tables) (fuel : Nat) (ps : List Param) : elabParams T fuel (erParams ps) = elabParams T fuel ps := by
  cases ps with
  | nil => rfl
  | cons p ps => unfold erParams elabParams; rw [elab_erParam T fuel p, elab_erParams T fuel ps]
termination_by structural ps
theorem elab_erParam (T : Tables) (fuel : Nat) (p : Param) : elabParam T fuel (erParam p) = elabParam T fuel p := by
  cases p with
  | num d => rfl
  | str s => rfl
  | bool b => rfl
  | path q => unfold erParam elabParam; rw [elab_erPath T fuel q]
  | logic l => unfold erParam elabParam; rw [elab_erLogic T fuel l]
termination_by structural p
theorem elab_erLogic (T : Tables) (fuel : Nat) (l : LogicOp) : elabLogic T fuel (erLogic l) = elabLogic T fuel l := by
  cases l with
  | mk i f ty ops us => unfold erLogic elabLogic; rw [elab_erLParts T fuel ops]
termination_by structural l
theorem elab_erLParts (T : Tables) (fuel : Nat) (ps : List LogicPart) : elabLParts T fuel (erLParts ps) = elabLParts T fuel ps := by
  cases ps with
  | nil => rfl
  | cons p ps => unfold erLParts elabLParts; rw [elab_erLPart T fuel p, elab_erLParts T fuel ps]
termination_by structural ps
theorem elab_erLPart (T : Tables) (fuel : Nat) (p : LogicPart) : elabLPart T fuel (erLPart p) = elabLPart T fuel p := by
  cases p with
  | path q => unfold erLPart elabLPart; rw [elab_erPath T fuel q]
  | logic l => unfold erLPart elabLPart; rw [elab_erLogic T fuel l]
termination_by structural p
end

/-- **C09**: two paths of the same structure evaluate to the same outcome on every current value and every root value, whatever
    text was typed to obtain them and whatever the parser marked them with. -/
theorem eval_of_same_structure (T : Tables) (fuel : Nat) (p q : PathOp) (h : erPath p = erPath q) (cur orig : GoVal) :
    sPath (elabPath T fuel p) cur orig = sPath (elabPath T fuel q) cur orig := by
  rw [← elab_erPath T fuel p, ← elab_erPath T fuel q, h]

theorem evalLogic_of_same_structure (T : Tables) (fuel : Nat) (l m : LogicOp) (h : erLogic l = erLogic m) (cur orig : GoVal) :
    sLogic (elabLogic T fuel l) cur orig = sLogic (elabLogic T fuel m) cur orig := by
  rw [← elab_erLogic T fuel l, ← elab_erLogic T fuel m, h]

/-- elaboration does not read the `IsInvalid` and `MustEndInFunctionOrIdent` marks of a path either -/
theorem elab_ignores_marks (T : Tables) (fuel : Nat) (i i' r f m m' : Bool) (ops : List PathPart) (us us' : Bytes) :
    elabPath T fuel (.mk i r f m ops us) = elabPath T fuel (.mk i' r f m' ops us') := by
  unfold elabPath; rfl

/-- non-vacuity: two spellings of one query (recorded texts differ) have the same structure -/
example : erPath (.mk false true false false [.ident [97] false [97]] [36, 46, 97])
        = erPath (.mk false true false false [.ident [97] false [32, 97]] [36, 32, 46, 97]) := by
  simp [erPath, erParts, erPart]

end Mp
