import Mp.DecProofs
import Mathlib.Tactic.Positivity
import Mathlib.Algebra.Order.AbsoluteValue.Basic
/-! Prototype: C04 — Divide is within half a unit of the 16th decimal place (any precision, any operands, divisor ≠ 0). -/
namespace Mp
namespace Dec

/-- integer core of DivRound: truncated quotient, then one step away from zero when 2|r| ≥ |b| -/
def roundQuot (a b : Int) : Int :=
  let q := Int.tdiv a b
  let r := Int.tmod a b
  if 2 * (r.natAbs : Int) < (b.natAbs : Int) then q
  else if sign a * sign b < 0 then q - 1 else q + 1

theorem sign_of_neg {x : Int} (h : x < 0) : sign x = -1 := by unfold sign; simp [h]
theorem sign_of_pos {x : Int} (h : 0 < x) : sign x = 1 := by
  unfold sign
  have : ¬ x < 0 := by omega
  simp [this, h]

theorem roundQuot_bound (a b : Int) (hb : b ≠ 0) : |(roundQuot a b : ℚ) - (a : ℚ) / b| ≤ 1 / 2 := by
  have hbq : (b : ℚ) ≠ 0 := by exact_mod_cast hb
  have hdiv : a = b * Int.tdiv a b + Int.tmod a b := (Int.mul_tdiv_add_tmod a b).symm
  have hrlt : (Int.tmod a b).natAbs < b.natAbs := by
    rw [Int.natAbs_tmod]; exact Nat.mod_lt _ (Int.natAbs_pos.mpr hb)
  -- a/b = q + r/b
  have key : (a : ℚ) / b = (Int.tdiv a b : ℚ) + (Int.tmod a b : ℚ) / b := by
    have : (a : ℚ) = b * (Int.tdiv a b : ℚ) + (Int.tmod a b : ℚ) := by exact_mod_cast hdiv
    field_simp
    linarith
  set q := Int.tdiv a b with hq
  set r := Int.tmod a b with hr
  have habs_r : |(r : ℚ)| = (r.natAbs : ℚ) := by rw [Nat.cast_natAbs, Int.cast_abs]
  have habs_b : |(b : ℚ)| = (b.natAbs : ℚ) := by rw [Nat.cast_natAbs, Int.cast_abs]
  have hbpos : (0 : ℚ) < |(b : ℚ)| := abs_pos.mpr hbq
  have hfrac_lt : |(r : ℚ) / b| < 1 := by
    rw [abs_div, div_lt_one hbpos, habs_r, habs_b]; exact_mod_cast hrlt
  unfold roundQuot
  simp only [← hq, ← hr]
  split
  · -- no adjustment: |r/b| < 1/2
    rename_i hlt
    rw [key]
    have : |(r : ℚ) / b| < 1 / 2 := by
      rw [abs_div, div_lt_iff₀ hbpos, habs_r, habs_b]
      have : (2 * (r.natAbs : Int) : ℚ) < (b.natAbs : Int) := by exact_mod_cast hlt
      push_cast at this
      linarith
    have e : ((q : ℚ) - ((q : ℚ) + (r : ℚ) / b)) = -((r : ℚ) / b) := by ring
    rw [e, abs_neg]
    exact le_of_lt this
  · rename_i hge
    have hge' : (1 : ℚ) / 2 ≤ |(r : ℚ) / b| := by
      rw [abs_div, le_div_iff₀ hbpos, habs_r, habs_b]
      have : ¬ (2 * (r.natAbs : Int) : ℚ) < (b.natAbs : Int) := by exact_mod_cast hge
      push_cast at this
      linarith
    -- r ≠ 0, and r has the sign of a
    have hr0 : r ≠ 0 := by
      intro h0
      rw [h0] at hge'
      simp at hge'
      linarith
    have ha0 : a ≠ 0 := by
      intro h0; apply hr0; rw [hr, h0]; simp
    -- sign of r/b equals sign a * sign b
    have hsr : (0 < a → 0 < r) ∧ (a < 0 → r < 0) := by
      have hs := Int.sign_tmod a b
      have hnd : ¬ b ∣ a := by
        intro hd
        apply hr0
        rw [hr]
        exact Int.tmod_eq_zero_of_dvd hd
      rw [if_neg hnd] at hs
      constructor
      · intro hpos
        rw [Int.sign_eq_one_of_pos hpos] at hs
        exact Int.sign_eq_one_iff_pos.mp hs
      · intro hneg
        rw [Int.sign_eq_neg_one_of_neg hneg] at hs
        exact Int.sign_eq_neg_one_iff_neg.mp hs
    split
    · -- quotient negative: q - 1, and r/b < 0
      rename_i hs
      rw [key]
      have hneg : (r : ℚ) / b < 0 := by
        rcases lt_or_gt_of_ne ha0 with han | hap
        · have hrn := hsr.2 han
          have hbp : 0 < b := by
            rcases lt_or_gt_of_ne hb with hbn | hbp
            · rw [sign_of_neg han, sign_of_neg hbn] at hs; omega
            · exact hbp
          exact div_neg_of_neg_of_pos (by exact_mod_cast hrn) (by exact_mod_cast hbp)
        · have hrp := hsr.1 hap
          have hbn : b < 0 := by
            rcases lt_or_gt_of_ne hb with hbn | hbp
            · exact hbn
            · rw [sign_of_pos hap, sign_of_pos hbp] at hs; omega
          exact div_neg_of_pos_of_neg (by exact_mod_cast hrp) (by exact_mod_cast hbn)
      have h1 : |(r : ℚ) / b| = -((r : ℚ) / b) := abs_of_neg hneg
      have e : (((q - 1 : Int) : ℚ) - ((q : ℚ) + (r : ℚ) / b)) = -(1 + (r : ℚ) / b) := by push_cast; ring
      rw [e, abs_neg]
      rw [h1] at hge' hfrac_lt
      rw [abs_of_nonneg (by linarith)]
      linarith
    · rename_i hs
      rw [key]
      have hpos : 0 < (r : ℚ) / b := by
        rcases lt_or_gt_of_ne ha0 with han | hap
        · have hrn := hsr.2 han
          have hbn : b < 0 := by
            rcases lt_or_gt_of_ne hb with hbn | hbp
            · exact hbn
            · exfalso; apply hs
              rw [sign_of_neg han, sign_of_pos hbp]; omega
          exact div_pos_of_neg_of_neg (by exact_mod_cast hrn) (by exact_mod_cast hbn)
        · have hrp := hsr.1 hap
          have hbp : 0 < b := by
            rcases lt_or_gt_of_ne hb with hbn | hbp
            · exfalso; apply hs
              rw [sign_of_pos hap, sign_of_neg hbn]; omega
            · exact hbp
          exact div_pos (by exact_mod_cast hrp) (by exact_mod_cast hbp)
      have h1 : |(r : ℚ) / b| = (r : ℚ) / b := abs_of_pos hpos
      have e : (((q + 1 : Int) : ℚ) - ((q : ℚ) + (r : ℚ) / b)) = 1 - (r : ℚ) / b := by push_cast; ring
      rw [e]
      rw [h1] at hge' hfrac_lt
      rw [abs_of_nonneg (by linarith)]
      linarith

#print axioms roundQuot_bound
end Dec
end Mp
