import Mp.CueAst
/-! The validator on the parsed operation WITH FILTERS: `Mp/CueAst.lean` extended by the cue path each part is handed (`base`: the keys
    of the value a filter is applied to), so that

    * a filter after a key path is validated where it stands: the keys before it must be accepted (else the walk has already returned),
      the value they lead to must be a list (else "only lists can be filtered"), and its group is validated with that key path as base;
      an error in the group ends the walk of the path (opPath.Validate returns through errFunc), and it is the ONLY way an error inside a
      filter shows - a condition that does not end in a Boolean is marked after the group's error was taken and is not seen
      (`Tree.ident_filter_not_consulted`);
    * an `@` path inside a filter starts at the elements of that list: its keys are looked up below `base` (through the list, as
      `findValueAtPath` does), its first key is not compared with the blocked root fields, and nothing stops it at its first key;
    * a filter after a call is an error of that call ("tried to apply filter against *Function"); a filter directly on `$` or `@` is declined.

    The driver uses it for operations that contain a filter; on operations without one it is `vTop` (same definitions, base empty).
    Core-only. -/
namespace Mp
open Generated

def finishKeysB (root : CTy) (bl : List String) (base ks : List String) : Option PState :=
  match base with
  | [] => finishKeys root bl ks
  | _ =>
    match ks with
    | [] => none
    | _ =>
      match validateKeys root [] ks base none false with
      | .rej c => some (.stopped [c])
      | .err => none
      | .acc t io =>
        match findValueAtPath root (base ++ ks) with
        | none => none
        | some last => some (.calls last (t, io) false [])

def isListTy : CTy → Bool
  | .list .. => true
  | .deplist _ => true
  | _ => false

mutual
/-- `base` = the cue path the path is handed: [] at the top level, the keys of the filtered list inside a filter, the keys of the
    receiver for an argument. A `$` path starts at the root whatever it is handed. -/
def vPathF (root : CTy) (bl : List String) (base : List String) : PathOp → Option (List String × (String × String))
  | .mk _ isRoot _ _ ops _ => vPartsF root bl (if isRoot then [] else base) (.keys []) ops
/-- `eb` = the cue path the path started from (fixed); the state holds the keys met since -/
def vPartsF (root : CTy) (bl : List String) (eb : List String) (st : PState) : List PathPart → Option (List String × (String × String))
  | [] =>
    match st with
    | .keys ks =>
      (match finishKeysB root bl eb ks with
       | some (.calls _ prev _ errs) => some (errs, prev)
       | some (.stopped errs) => some (errs, ("", ""))
       | _ => none)
    | .calls _ prev _ errs => some (errs, prev)
    | .stopped errs => some (errs, ("", ""))
  | .ident name _ _ :: rest =>
    match st with
    | .keys ks => (match bytesToString name with | some n => vPartsF root bl eb (.keys (ks ++ [n])) rest | none => none)
    | .stopped errs => vPartsF root bl eb (.stopped errs) rest
    | .calls .. => none
  | .filter lo _ :: rest =>
    match st with
    | .stopped errs => vPartsF root bl eb (.stopped errs) rest
    | .calls last prev pwf errs => vPartsF root bl eb (.calls last prev pwf (errs ++ ["other"])) rest   -- "tried to apply filter against *Function"
    | .keys ks =>
      match finishKeysB root bl eb ks with
      | some (.stopped errs) => vPartsF root bl eb (.stopped errs) rest
      | some (.calls last _ _ _) =>
        if !isListTy last then vPartsF root bl eb (.stopped ["other"]) rest else
        (match vLogicF root bl (eb ++ ks) true lo with
         | none => none
         | some (errs, _) => if errs.isEmpty then vPartsF root bl eb (.keys ks) rest else vPartsF root bl eb (.stopped errs) rest)
      | _ => none
  | .func isInvalid name params _ :: rest =>
    if isInvalid then none else
    match st with
    | .stopped errs => vPartsF root bl eb (.stopped errs) rest
    | .keys ks =>
      (match finishKeysB root bl eb ks with
       | some (.stopped errs) => vPartsF root bl eb (.stopped errs) rest
       | some (.calls last prev pwf errs) =>
         (match (bytesToString name).bind lookupFunc with
          | none => none
          | some fd =>
            match vParamsF root bl (eb ++ ks) fd 0 none params with
            | none => none
            | some perrs =>
              let e1 := if validOnOk fd prev then [] else ["other"]
              vPartsF root bl (eb ++ ks) (.calls last (funcReturns fd prev pwf last) true (errs ++ e1 ++ perrs)) rest)
       | _ => none)
    | .calls last prev pwf errs =>
      -- after the first call the state no longer holds the keys: `eb` has been moved to the cue path of the receiver
      match (bytesToString name).bind lookupFunc with
      | none => none
      | some fd =>
        match vParamsF root bl eb fd 0 none params with
        | none => none
        | some perrs =>
          let e1 := if validOnOk fd prev then [] else ["other"]
          vPartsF root bl eb (.calls last (funcReturns fd prev pwf last) true (errs ++ e1 ++ perrs)) rest
def vParamsF (root : CTy) (bl : List String) (cp : List String) (fd : FuncDesc) (i : Nat) (vp : Option Nat) : List Param → Option (List String)
  | [] => some []
  | p :: rest =>
    match vParamF root bl cp p with
    | none => none
    | some (perrs, pty) =>
      let (cerrs, vp') := paramCheck fd i vp pty
      match vParamsF root bl cp fd (i + 1) vp' rest with
      | none => none
      | some more => some ((if perrs.isEmpty then cerrs else perrs) ++ more)
def vParamF (root : CTy) (bl : List String) (cp : List String) : Param → Option (List String × (String × String))
  | .num _ => some ([], ("Number", "Single"))
  | .str _ => some ([], ("String", "Single"))
  | .bool _ => some ([], ("Boolean", "Single"))
  | .path p => vPathF root bl cp p
  | .logic l => vLogicF root bl cp false l
/-- `direct` = the group is the body of a filter: a condition that does not end in a Boolean is marked after the group's error was
    taken, and the filter is not asked again -/
def vLogicF (root : CTy) (bl : List String) (cp : List String) (direct : Bool) : LogicOp → Option (List String × (String × String))
  | .mk isInvalid _ _ ops _ =>
    if isInvalid then none else
    match vLPartsF root bl cp direct ops with
    | none => none
    | some errs => some (errs, ("Boolean", "Single"))
def vLPartsF (root : CTy) (bl : List String) (cp : List String) (direct : Bool) : List LogicPart → Option (List String)
  | [] => some []
  | .path p :: rest =>
    match vPathF root bl cp p, vLPartsF root bl cp direct rest with
    | some (errs, ty), some more => some ((if errs.isEmpty && !direct && ty != ("Boolean", "Single") then ["other"] else errs) ++ more)
    | _, _ => none
  | .logic l :: rest =>
    match vLogicF root bl cp false l, vLPartsF root bl cp direct rest with
    | some (errs, _), some more => some (errs ++ more)
    | _, _ => none
end

def vTopF (root : CTy) (bl : List String) : TopOp → Option (List String × (String × String))
  | .path p => vPathF root bl [] p
  | .logic l => vLogicF root bl [] false l

/-- the verdict line for an operation that may contain filters -/
def verdictF (root : CTy) (bl : List String) (t : TopOp) : Option String := verdictOf (vTopF root bl t)

end Mp
