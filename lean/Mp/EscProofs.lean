/-! Prototype: C09 — the string-literal escape / unescape pair, over an abstract alphabet (instantiated with bytes at
    the end). Core-only, self-contained. `unescape` in the Go code is eight whole-string `strings.Replace` passes in the
    (random) iteration order of a map; `escape` maps single bytes. -/
namespace Esc

variable {α : Type} [DecidableEq α]

def lookup (S : List (α × α)) (c : α) : Option α :=
  match S with
  | [] => none
  | (c', o) :: t => if c' = c then some o else lookup t c

/-- inverse: the pattern letter of the rule whose output is `o` -/
def invLookup (S : List (α × α)) (o : α) : Option α :=
  match S with
  | [] => none
  | (c, o') :: t => if o' = o then some c else invLookup t o

/-- one simultaneous left-to-right pass for a rule set; `bs` is the backslash -/
def unescS (bs : α) (S : List (α × α)) : List α → List α
  | [] => []
  | [x] => [x]
  | x :: y :: t =>
    if x = bs then
      match lookup S y with
      | some o => o :: unescS bs S t
      | none => bs :: unescS bs S (y :: t)
    else x :: unescS bs S (y :: t)

/-- strings.Replace(s, [bs, c], [o], -1) -/
def pass (bs c o : α) : List α → List α
  | [] => []
  | [x] => [x]
  | x :: y :: t => if x = bs ∧ y = c then o :: pass bs c o t else x :: pass bs c o (y :: t)

def escChar (bs : α) (S : List (α × α)) (o : α) : List α :=
  match invLookup S o with
  | some c => [bs, c]
  | none => [o]

def escape (bs : α) (S : List (α × α)) : List α → List α
  | [] => []
  | o :: t => escChar bs S o ++ escape bs S t

/-- no backslash directly before a pattern letter that `escape` would leave alone -/
def NoBad (bs : α) (S : List (α × α)) : List α → Prop
  | [] => True
  | [_] => True
  | x :: y :: t => ¬ (x = bs ∧ (lookup S y).isSome ∧ (invLookup S y).isNone) ∧ NoBad bs S (y :: t)

/-- well-formed rule set: no rule mentions the backslash; a rule's pattern letter is found by `lookup` from its output
    and vice versa (patterns and outputs are each distinct) -/
structure WF (bs : α) (S : List (α × α)) : Prop where
  inv_lookup : ∀ o c, invLookup S o = some c → lookup S c = some o
  bs_not_out : invLookup S bs = none
  bs_not_pat : lookup S bs = none
  lookup_inv : ∀ c o, lookup S c = some o → (invLookup S o).isSome = true

theorem unescS_bs (bs : α) (S : List (α × α)) (y : α) (t : List α) :
    unescS bs S (bs :: y :: t) = match lookup S y with
      | some o => o :: unescS bs S t
      | none => bs :: unescS bs S (y :: t) := by
  simp [unescS]

theorem unescS_other (bs : α) (S : List (α × α)) (x : α) (l : List α) (hx : x ≠ bs) :
    unescS bs S (x :: l) = x :: unescS bs S l := by
  cases l with
  | nil => simp [unescS]
  | cons y t => simp [unescS, hx]

/-- a literal backslash in front of an escaped string stays a backslash -/
theorem unesc_bs_escape (bs : α) (S : List (α × α)) (h : WF bs S) (t : List α) (hn : NoBad bs S (bs :: t)) :
    unescS bs S (bs :: escape bs S t) = bs :: unescS bs S (escape bs S t) := by
  cases t with
  | nil => simp [escape, unescS]
  | cons y t' =>
    simp only [escape, escChar]
    cases hy : invLookup S y with
    | some c' =>
      simp only [List.cons_append, List.nil_append]
      rw [unescS_bs, h.bs_not_pat]
    | none =>
      simp only [List.cons_append, List.nil_append]
      have hny : lookup S y = none := by
        cases hl : lookup S y with
        | none => rfl
        | some o => exact absurd ⟨rfl, by simp [hl], by simp [hy]⟩ hn.1
      rw [unescS_bs, hny]

/-- C09: escaping and then unescaping gives the value back, for every value without a "bad" backslash pair -/
theorem unesc_escape (bs : α) (S : List (α × α)) (h : WF bs S) :
    ∀ u : List α, NoBad bs S u → unescS bs S (escape bs S u) = u := by
  intro u
  induction u with
  | nil => intro _; rfl
  | cons x t ih =>
    intro hn
    have hnt : NoBad bs S t := by
      cases t with
      | nil => trivial
      | cons y t' => exact hn.2
    have iht := ih hnt
    simp only [escape, escChar]
    cases hx : invLookup S x with
    | some c =>
      have hl := h.inv_lookup x c hx
      simp only [List.cons_append, List.nil_append]
      rw [unescS_bs, hl, iht]
    | none =>
      simp only [List.cons_append, List.nil_append]
      by_cases hxb : x = bs
      · subst hxb
        rw [unesc_bs_escape x S h t hn, iht]
      · rw [unescS_other bs S x _ hxb, iht]


def Bad (bs : α) (S : List (α × α)) (x y : α) : Prop := x = bs ∧ (lookup S y).isSome ∧ (invLookup S y).isNone

theorem noBad_cons (bs : α) (S : List (α × α)) (x : α) (l : List α)
    (h1 : ∀ y t, l = y :: t → ¬ Bad bs S x y) (h2 : NoBad bs S l) : NoBad bs S (x :: l) := by
  cases l with
  | nil => trivial
  | cons y t => exact ⟨h1 y t rfl, h2⟩

/-- the first byte `unescS` emits is never a pattern letter that `escape` leaves alone, unless it was one in the input
    that is not preceded by a backslash — what we need is only the case after a literal backslash -/
theorem head_after_bs (bs : α) (S : List (α × α)) (h : WF bs S) (y : α) (t : List α) (hy : lookup S y = none) :
    ∀ z r, unescS bs S (y :: t) = z :: r → ¬ Bad bs S bs z := by
  intro z r hz hb
  obtain ⟨_, hs, hi⟩ := hb
  cases t with
  | nil =>
    simp [unescS] at hz
    rw [← hz.1, hy] at hs; simp at hs
  | cons y2 t2 =>
    by_cases hyb : y = bs
    · subst hyb
      rw [unescS_bs] at hz
      cases hl : lookup S y2 with
      | some o =>
        rw [hl] at hz
        simp at hz
        have := h.lookup_inv y2 o hl
        rw [hz.1] at this
        rw [Option.isNone_iff_eq_none] at hi
        rw [hi] at this; simp at this
      | none =>
        rw [hl] at hz
        simp at hz
        rw [← hz.1, h.bs_not_pat] at hs; simp at hs
    · rw [unescS_other bs S y _ hyb] at hz
      simp at hz
      rw [← hz.1, hy] at hs; simp at hs

/-- C09: whatever the input, the value `unescape` produces has no "bad" backslash pair -/
theorem noBad_unesc (bs : α) (S : List (α × α)) (h : WF bs S) : ∀ b : List α, NoBad bs S (unescS bs S b) := by
  intro b
  induction b using unescS.induct bs S with
  | case1 => trivial
  | case2 x => simp [unescS, NoBad]
  | case3 y t o hl ih =>
    rw [unescS_bs, hl]
    apply noBad_cons _ _ _ _ _ ih
    intro z r _ hb
    have := h.lookup_inv y o hl
    rw [hb.1, h.bs_not_out] at this
    simp at this
  | case4 y t hl ih =>
    rw [unescS_bs, hl]
    apply noBad_cons _ _ _ _ _ ih
    intro z r hz
    exact head_after_bs bs S h y t hl z r hz
  | case5 x y t hx ih =>
    rw [unescS_other bs S x _ hx]
    apply noBad_cons _ _ _ _ _ ih
    intro z r _ hb
    exact hx hb.1

/-- C09, string literals: for EVERY token body `b`, printing the parsed value and parsing it again gives the value -/
theorem literal_roundtrip (bs : α) (S : List (α × α)) (h : WF bs S) (b : List α) :
    unescS bs S (escape bs S (unescS bs S b)) = unescS bs S b :=
  unesc_escape bs S h _ (noBad_unesc bs S h b)


/-! ### the eight sequential passes equal the simultaneous pass, in every order -/

theorem pass_other (bs c o x : α) (l : List α) (hx : x ≠ bs) : pass bs c o (x :: l) = x :: pass bs c o l := by
  cases l with
  | nil => simp [pass]
  | cons y t => simp [pass, hx]

theorem pass_bs_ne (bs c o z : α) (r : List α) (hz : z ≠ c) : pass bs c o (bs :: z :: r) = bs :: pass bs c o (z :: r) := by
  simp [pass, hz]

theorem pass_bs_eq (bs c o : α) (r : List α) : pass bs c o (bs :: c :: r) = o :: pass bs c o r := by
  simp [pass]

theorem lookup_cons (S : List (α × α)) (c o y : α) : lookup ((c, o) :: S) y = if c = y then some o else lookup S y := rfl

/-- head of the simultaneous pass on a non-empty input, as far as we need it: it is never `c` when `c` is neither an
    output of `S`, nor the backslash, nor the first input byte -/
theorem head_ne (bs : α) (S : List (α × α)) (c y : α) (t : List α)
    (hc : c ≠ bs) (hout : ∀ c' o', lookup S c' = some o' → o' ≠ c) (hy : y ≠ c) :
    ∃ z r, unescS bs S (y :: t) = z :: r ∧ z ≠ c := by
  cases t with
  | nil => exact ⟨y, [], by simp [unescS], hy⟩
  | cons y2 t2 =>
    by_cases hyb : y = bs
    · subst hyb
      rw [unescS_bs]
      cases hl : lookup S y2 with
      | some o' => exact ⟨o', _, rfl, hout y2 o' hl⟩
      | none => exact ⟨y, _, rfl, hy⟩
    · exact ⟨y, _, unescS_other bs S y _ hyb, hy⟩

theorem pass_unescS (bs c o : α) (S : List (α × α)) (hc : c ≠ bs) (ho : o ≠ bs)
    (hout_bs : ∀ c' o', lookup S c' = some o' → o' ≠ bs)
    (hout_c : ∀ c' o', lookup S c' = some o' → o' ≠ c)
    (hnew : lookup S c = none) :
    ∀ (n : Nat) (l : List α), l.length ≤ n → pass bs c o (unescS bs S l) = unescS bs ((c, o) :: S) l := by
  intro n
  induction n with
  | zero =>
    intro l hl
    cases l with
    | nil => rfl
    | cons x t => simp at hl
  | succ n ih =>
    intro l hl
    cases l with
    | nil => rfl
    | cons x t =>
      cases t with
      | nil => simp [unescS, pass]
      | cons y t2 =>
        have hlen1 : (y :: t2).length ≤ n := by simp at hl ⊢; omega
        have hlen2 : t2.length ≤ n := by simp at hl ⊢; omega
        by_cases hxb : x = bs
        · subst hxb
          rw [unescS_bs, unescS_bs, lookup_cons]
          cases hl2 : lookup S y with
          | some o' =>
            have hcy : c ≠ y := by
              intro hcy; subst hcy; rw [hnew] at hl2; cases hl2
            simp only [hcy, if_false]
            rw [pass_other x c o o' _ (hout_bs y o' hl2), ih t2 hlen2]
          | none =>
            by_cases hcy : c = y
            · subst hcy
              simp only [if_true]
              rw [unescS_other x S c _ hc, pass_bs_eq, ih t2 hlen2]
            · simp only [hcy, if_false]
              obtain ⟨z, r, hz, hzc⟩ := head_ne x S c y t2 hc hout_c (fun h => hcy h.symm)
              rw [hz, pass_bs_ne x c o z r hzc, ← hz, ih (y :: t2) hlen1]
        · rw [unescS_other bs S x _ hxb, unescS_other bs ((c, o) :: S) x _ hxb, pass_other bs c o x _ hxb, ih (y :: t2) hlen1]

theorem unescS_nil (bs : α) : ∀ l : List α, unescS bs ([] : List (α × α)) l = l := by
  intro l
  induction l using unescS.induct bs ([] : List (α × α)) with
  | case1 => rfl
  | case2 x => rfl
  | case3 y t o hl _ => simp [lookup] at hl
  | case4 y t hl ih => rw [unescS_bs]; simp [lookup, ih]
  | case5 x y t hx ih => rw [unescS_other bs _ x _ hx, ih]

/-- a list of rules that may be applied one after the other: each new rule is about a fresh letter that no earlier
    output equals, and nothing involves the backslash -/
def Seq (bs : α) : List (α × α) → Prop
  | [] => True
  | (c, o) :: S => c ≠ bs ∧ o ≠ bs ∧ lookup S c = none ∧ (∀ c' o', lookup S c' = some o' → o' ≠ bs) ∧
      (∀ c' o', lookup S c' = some o' → o' ≠ c) ∧ Seq bs S

/-- applying the rules one whole-string pass at a time (last rule of the list first) is the simultaneous pass -/
theorem seq_eq_sim (bs : α) : ∀ (S : List (α × α)), Seq bs S → ∀ l : List α,
    S.foldr (fun r acc => pass bs r.1 r.2 acc) l = unescS bs S l := by
  intro S
  induction S with
  | nil => intro _ l; simp [unescS_nil]
  | cons r S ih =>
    intro hs l
    obtain ⟨c, o⟩ := r
    obtain ⟨hc, ho, hnew, hob, hoc, hrest⟩ := hs
    simp only [List.foldr_cons]
    rw [ih hrest l]
    exact pass_unescS bs c o S hc ho hob hoc hnew l.length l (Nat.le_refl _)

/-- the simultaneous pass depends on the rules only through `lookup` — so two orders of the same rules agree -/
theorem unescS_congr (bs : α) (S T : List (α × α)) (h : ∀ y, lookup S y = lookup T y) : ∀ l : List α, unescS bs S l = unescS bs T l := by
  intro l
  induction l using unescS.induct bs S with
  | case1 => rfl
  | case2 x => rfl
  | case3 y t o hl ih => rw [unescS_bs, unescS_bs, ← h y, hl, ih]
  | case4 y t hl ih => rw [unescS_bs, unescS_bs, ← h y, hl, ih]
  | case5 x y t hx ih => rw [unescS_other bs S x _ hx, unescS_other bs T x _ hx, ih]


theorem lookup_mem (S : List (α × α)) (c o : α) (h : lookup S c = some o) : (c, o) ∈ S := by
  induction S with
  | nil => simp [lookup] at h
  | cons r S ih =>
    obtain ⟨c', o'⟩ := r
    simp only [lookup] at h
    by_cases hc : c' = c
    · simp [hc] at h; subst hc; subst h; exact List.mem_cons_self
    · simp [hc] at h; exact List.mem_cons_of_mem _ (ih h)

theorem lookup_none_of_not_mem (S : List (α × α)) (c : α) (h : ∀ r ∈ S, r.1 ≠ c) : lookup S c = none := by
  cases hl : lookup S c with
  | none => rfl
  | some o => exact absurd rfl (h (c, o) (lookup_mem S c o hl))

/-- rules that do not interfere with each other -/
def Indep (r1 r2 : α × α) : Prop := r1.1 ≠ r2.1 ∧ r1.2 ≠ r2.1 ∧ r2.2 ≠ r1.1

instance (r1 r2 : α × α) : Decidable (Indep r1 r2) := by unfold Indep; infer_instance

theorem invLookup_mem (S : List (α × α)) (o c : α) (h : invLookup S o = some c) : (c, o) ∈ S := by
  induction S with
  | nil => simp [invLookup] at h
  | cons r S ih =>
    obtain ⟨c', o'⟩ := r
    simp only [invLookup] at h
    by_cases hc : o' = o
    · simp [hc] at h; subst hc; subst h; exact List.mem_cons_self
    · simp [hc] at h; exact List.mem_cons_of_mem _ (ih h)

theorem seq_of_pairwise (bs : α) : ∀ S : List (α × α), (∀ r ∈ S, r.1 ≠ bs ∧ r.2 ≠ bs) → S.Pairwise Indep → Seq bs S := by
  intro S
  induction S with
  | nil => intro _ _; trivial
  | cons r S ih =>
    intro hb hp
    obtain ⟨c, o⟩ := r
    have hp' := List.pairwise_cons.mp hp
    refine ⟨(hb (c, o) List.mem_cons_self).1, (hb (c, o) List.mem_cons_self).2, ?_, ?_, ?_, ?_⟩
    · exact lookup_none_of_not_mem S c (fun r hr => fun h => (hp'.1 r hr).1 h.symm)
    · intro c' o' hl; exact (hb (c', o') (List.mem_cons_of_mem _ (lookup_mem S c' o' hl))).2
    · intro c' o' hl; exact (hp'.1 (c', o') (lookup_mem S c' o' hl)).2.2
    · exact ih (fun r hr => hb r (List.mem_cons_of_mem _ hr)) hp'.2

theorem indep_symm {r1 r2 : α × α} (h : Indep r1 r2) : Indep r2 r1 := ⟨fun e => h.1 e.symm, h.2.2, h.2.1⟩

theorem lookup_perm (S T : List (α × α)) (hp : S.Perm T) (hS : S.Pairwise Indep) : ∀ y, lookup S y = lookup T y := by
  induction hp with
  | nil => intro y; rfl
  | cons x _ ih =>
    intro y
    obtain ⟨c, o⟩ := x
    simp only [lookup]
    split
    · rfl
    · exact ih (List.pairwise_cons.mp hS).2 y
  | swap x y l =>
    intro z
    obtain ⟨c1, o1⟩ := x
    obtain ⟨c2, o2⟩ := y
    have hne : c2 ≠ c1 := (List.pairwise_cons.mp hS).1 (c1, o1) List.mem_cons_self |>.1
    simp only [lookup]
    by_cases h1 : c1 = z <;> by_cases h2 : c2 = z <;> simp [h1, h2]
    exact absurd (h2.trans h1.symm) hne
  | trans h1 _ ih1 ih2 =>
    intro y
    rw [ih1 hS y, ih2 (h1.pairwise hS (fun h => indep_symm h)) y]

/-- C09 / C11: whatever order the map iteration picks, `unescape` computes the same function -/
theorem unescape_order_independent (bs : α) (S T : List (α × α)) (hp : S.Perm T)
    (hb : ∀ r ∈ S, r.1 ≠ bs ∧ r.2 ≠ bs) (hS : S.Pairwise Indep) (l : List α) :
    S.foldr (fun r acc => pass bs r.1 r.2 acc) l = T.foldr (fun r acc => pass bs r.1 r.2 acc) l := by
  have hT : T.Pairwise Indep := hp.pairwise hS (fun h => indep_symm h)
  have hbT : ∀ r ∈ T, r.1 ≠ bs ∧ r.2 ≠ bs := fun r hr => hb r (hp.mem_iff.mpr hr)
  rw [seq_eq_sim bs S (seq_of_pairwise bs S hb hS) l, seq_eq_sim bs T (seq_of_pairwise bs T hbT hT) l]
  exact unescS_congr bs S T (lookup_perm S T hp hS) l

/-! ### the concrete rules of opFunction.go -/
def goRules : List (Nat × Nat) := [(34, 34), (97, 7), (98, 8), (102, 12), (110, 10), (114, 13), (116, 9), (118, 11)]

theorem goRules_indep : goRules.Pairwise Indep := by decide
theorem goRules_bs : ∀ r ∈ goRules, r.1 ≠ 92 ∧ r.2 ≠ 92 := by decide
theorem goRules_wf : WF 92 goRules := by
  refine ⟨?_, by decide, by decide, ?_⟩
  · intro o c h
    have : (c, o) ∈ goRules := invLookup_mem goRules o c h
    simp [goRules] at this
    rcases this with ⟨rfl, rfl⟩ | ⟨rfl, rfl⟩ | ⟨rfl, rfl⟩ | ⟨rfl, rfl⟩ | ⟨rfl, rfl⟩ | ⟨rfl, rfl⟩ | ⟨rfl, rfl⟩ | ⟨rfl, rfl⟩ <;> decide
  · intro c o h
    have : (c, o) ∈ goRules := lookup_mem goRules c o h
    simp [goRules] at this
    rcases this with ⟨rfl, rfl⟩ | ⟨rfl, rfl⟩ | ⟨rfl, rfl⟩ | ⟨rfl, rfl⟩ | ⟨rfl, rfl⟩ | ⟨rfl, rfl⟩ | ⟨rfl, rfl⟩ | ⟨rfl, rfl⟩ <;> decide

/-- the Go table, in every order the map may be iterated, computes one function, and printing then parsing a parsed
    string literal gives the same value -/
theorem go_literal_roundtrip (b : List Nat) :
    unescS 92 goRules (escape 92 goRules (unescS 92 goRules b)) = unescS 92 goRules b :=
  literal_roundtrip 92 goRules goRules_wf b

theorem go_order_independent (T : List (Nat × Nat)) (hp : goRules.Perm T) (l : List Nat) :
    goRules.foldr (fun r acc => pass 92 r.1 r.2 acc) l = T.foldr (fun r acc => pass 92 r.1 r.2 acc) l :=
  unescape_order_independent 92 goRules T hp goRules_bs goRules_indep l

#print axioms literal_roundtrip
#print axioms unescape_order_independent
#print axioms go_literal_roundtrip
#print axioms go_order_independent
end Esc
