import Mp.GoVal
import Mp.Fold
import Mp.Json
import Mp.JsonOut
/-! Prototype: mpath's evaluator (post-repair semantics) over GoVal. Core-only. -/
namespace Mp

inductive Out where
  | ok (v : GoVal)
  | knf          -- an error for which errors.Is(err, ErrKeyNotFound) holds
  | err          -- any other error
  | panic
  | unmodelled   -- the model declines (external engine: regexp, json, yaml, fmt)
  | fuel
deriving Inhabited

inductive Prm | num (d : Dec) | str (s : Bytes) | bool (b : Bool)
deriving Inhabited

/-- strings.EqualFold: rune by rune over unicode.SimpleFold orbits (tables regenerated from the running Go, Mp.Fold) -/
def equalFold (a b : Bytes) : Bool := equalFoldU a b

def bytesLt : Bytes → Bytes → Bool
  | [], [] => false
  | [], _ :: _ => true
  | _ :: _, [] => false
  | a :: as, b :: bs => if a < b then true else if a > b then false else bytesLt as bs

/-- helpers.go convertToDecimalIfNumberAndCheck (kind based) -/
def toDecimalCheck (val : GoVal) : Option Dec :=
  match val with
  | .dec d => some d
  | _ =>
    let v := RV.of val
    let v := if !isEmptyValue v then v.derefOnce else v
    match v with
    | .val (.dec d) => some d
    | .val (.str _ s) => Dec.ofString s
    | .val (.int _ _ n) => some ⟨n, 0⟩
    | .val (.f64 _ (.fin neg m e)) => let (c, x) := decOfFloat neg m e; some ⟨c, x⟩
    | _ => none

def toDecimalIfNumber (val : GoVal) : GoVal :=
  match toDecimalCheck val with | some d => .dec d | none => val

/-- helpers.go convertNumberKindsToDecimal: like the above but strings stay strings -/
def numberKindsToDecimal (val : GoVal) : GoVal :=
  let v := RV.of val
  let v := if !isEmptyValue v then v.derefOnce else v
  if v.kind == .string then val else toDecimalIfNumber val

mutual
/-- helpers.go normalizeValue -/
def normalizeValue : GoVal → GoVal
  | .nil => .nil
  | .dec d => .dec d
  | .str _ s => .str false s
  | .bool _ b => .bool false b
  | .ptr isNil v => if isNil then .ptr isNil v else
      match v with
      | .struct .. | .map .. | .func | .chan | .errVal | .nil => .ptr isNil v
      | .slice _ true _ => .ptr isNil v
      | .ptr true _ => .ptr isNil v
      | _ => normalizeValue v
  | .slice ei isNil xs => if isNil then .slice ei isNil xs else .slice true false (normalizeList xs)
  | .array _ xs => .slice true false (normalizeList xs)
  | .int k n v => .dec ⟨v, 0⟩
  | .f64 n f => toDecimalIfNumber (.f64 n f)
  | v => v
def normalizeList : List GoVal → List GoVal
  | [] => []
  | x :: xs => normalizeValue x :: normalizeList xs
end

/-- helpers.go findMapKey: exact match first, else the smallest key equal under folding -/
def findMapKey (keys : List Bytes) (vals : List GoVal) (name : Bytes) : Option GoVal :=
  let pairs := keys.zip vals
  match pairs.find? (fun p => p.1 == name) with
  | some p => some p.2
  | none =>
    let cands := pairs.filter (fun p => equalFold p.1 name && !p.1.isEmpty)
    match cands with
    | [] => none
    | c :: cs => some (cs.foldl (fun best p => if bytesLt p.1 best.1 then p else best) c).2

/-- helpers.go getFieldValueByNameFromStruct -/
def fieldByName (name : Bytes) (sv : RV) : Option GoVal :=
  if isEmptyValue sv then none else
  match sv.derefAll with
  | .val (.map _ _ keys vals) => (findMapKey keys vals name).map numberKindsToDecimal
  | .val (.struct names vals) =>
    match (names.zip vals).find? (fun p => p.1.2 && equalFold p.1.1 name) with
    | some p => some (numberKindsToDecimal p.2)
    | none => none
  | .val (.dec _) => none    -- a struct whose fields are all unexported
  | _ => none

/-- helpers.go getValuesByName -/
def valuesByName (name : Bytes) (data : GoVal) : Out :=
  let v := RV.of data
  if isEmptyValue v then .knf else
  let v := v.derefOnce
  match v.kind with
  | .struct => match fieldByName name v with | some o => .ok o | none => .knf
  | .array | .slice =>
    match v.elems with
    | [] => .knf
    | fev :: _ =>
      let k := fev.derefAll.kind
      if !(k == .struct || k == .map) then .knf else
      let found := v.elems.filterMap (fieldByName name)
      if found.isEmpty then .knf else .ok (.slice true false found)
  | _ => .knf

/-- opPathIdent.Do -/
def identDo (name : Bytes) (cur : GoVal) : Out :=
  match (RV.of cur).derefOnce with
  | .val (.map _ _ keys vals) =>
    match findMapKey keys vals name with
    | some v => .ok (numberKindsToDecimal v)
    | none => .knf
  | _ => valuesByName name cur

/-- helpers.go getAsStructOrSlice: object (true) or list (false) -/
def asStructOrSlice (data : GoVal) : Option (GoVal × Bool) :=
  match data with
  | .map .str false _ _ => some (data, true)       -- data.(map[string]any)
  | _ =>
    match (RV.of data).derefOnce with
    | .val (.struct n v) => some (.struct n v, true)
    | .val (.dec d) => some (.dec d, true)
    | .val (.map kk isNil k v) => some (.map kk isNil k v, true)
    | .val (.slice ei _ xs) => if xs.isEmpty then some (.slice true false [], false) else some (.slice true false xs, false) |>.map (fun p => if ei then p else p)
    | .val (.array _ xs) => some (.slice true false xs, false)
    | _ => none

def goEq (val : GoVal) (p : Prm) : Bool :=
  match val, p with
  | .str false a, .str b => a == b
  | .bool false a, .bool b => a == b
  | _, _ => false

def prmNumbers (ps : List Prm) : List Dec := ps.filterMap fun | .num d => some d | _ => none
def prmStrings (ps : List Prm) : List Bytes := ps.filterMap fun | .str s => some s | _ => none
def prmBools (ps : List Prm) : List Bool := ps.filterMap fun | .bool b => some b | _ => none
def prmAll (ps : List Prm) : List Prm :=
  (prmNumbers ps).map Prm.num ++ (prmStrings ps).map Prm.str ++ (prmBools ps).map Prm.bool

def firstOfNumber (ps : List Prm) : Option Dec :=
  if ps.length != 1 then none else
  match prmNumbers ps with
  | d :: _ => some d
  | [] => (prmStrings ps).findSome? Dec.ofString

def firstOfString (ps : List Prm) : Option Bytes :=
  if ps.length != 1 then none else (prmStrings ps).head?

mutual
def cmpZero : GoVal → Bool        -- cmp.Equal(v, zero(v), EquateEmpty(), Exporter(all))
  | .nil => true
  | .bool _ b => !b
  | .str _ s => s.isEmpty
  | .int _ _ n => n == 0
  | .f64 _ f => f64IsZero f
  | .dec d => d.coef == 0
  | .ptr isNil _ => isNil
  | .slice _ _ xs => xs.isEmpty
  | .map _ _ ks _ => ks.isEmpty
  | .array ei xs => if ei then xs.all (fun x => match x with | .nil => true | _ => false) else cmpZeroAll xs
  | .struct _ vals => cmpZeroAll vals
  | _ => false
def cmpZeroAll : List GoVal → Bool
  | [] => true
  | x :: xs => cmpZero x && cmpZeroAll xs
end

mutual
def reflZero : GoVal → Bool       -- reflect.Value.IsZero
  | .nil => true
  | .bool _ b => !b
  | .str _ s => s.isEmpty
  | .int _ _ n => n == 0
  | .f64 _ f => f64IsZero f
  | .dec _ => false
  | .ptr isNil _ => isNil
  | .slice _ isNil _ => isNil
  | .map _ isNil _ _ => isNil
  | .array ei xs => if ei then xs.all (fun x => match x with | .nil => true | _ => false) else reflZeroAll xs
  | .struct _ vals => reflZeroAll vals
  | _ => false
def reflZeroAll : List GoVal → Bool
  | [] => true
  | x :: xs => reflZero x && reflZeroAll xs
end

def listOf (val : GoVal) : Option (List RV) :=
  let v := RV.of val
  match v.derefOnce with
  | .val (.slice ei n xs) => some (RV.elems (.val (.slice ei n xs)))
  | .val (.array ei xs) => some (RV.elems (.val (.array ei xs)))
  | _ => none

def okBool (b : Bool) : Out := .ok (.bool false b)
def okDec (d : Dec) : Out := .ok (.dec d)
def okStr (s : Bytes) : Out := .ok (.str false s)

def isInfix (needle hay : Bytes) : Bool :=
  let rec go (h : Bytes) (fuel : Nat) : Bool :=
    match fuel with
    | 0 => needle.isPrefixOf h
    | f+1 => if needle.isPrefixOf h then true else match h with | [] => false | _ :: t => go t f
  go hay hay.length

def replaceAllB (s find repl : Bytes) : Bytes :=
  let rec go (l : Bytes) (fuel : Nat) : Bytes :=
    match fuel with
    | 0 => l
    | f+1 =>
      if find.isPrefixOf l then repl ++ go (l.drop find.length) f
      else match l with | [] => [] | c :: t => c :: go t f
  go s (s.length + 1)

def decimalSlice (ps : List Prm) (val : GoVal) (f : Dec → List Dec → Dec) : Out :=
  let val := match val with | .dec d => GoVal.slice false false [.dec d] | v => v
  let paramNumbers := prmNumbers ps ++ (prmStrings ps).filterMap Dec.ofString
  let val := match val with
    | .map _ _ _ vals => GoVal.slice true false (vals.map normalizeValue)
    | v => v
  let collect (xs : List GoVal) : Option (List Dec) :=
    xs.foldl (fun acc x => match acc, x with
      | some l, .dec d => some (l ++ [d])
      | some l, .str false s => (Dec.ofString s).map (fun d => l ++ [d])
      | _, _ => none) (some [])
  let res : Option (Option (List Dec)) :=     -- none: value of another shape (newSlc stays empty)
    match val with
    | .slice false false [.dec d] => some (some ([d] ++ paramNumbers))
    | .slice true _ xs => some ((collect xs).map (fun l => paramNumbers ++ l))
    | _ => none
  match res with
  | none => okDec Dec.zero
  | some none => .err
  | some (some []) => okDec Dec.zero
  | some (some [d]) => okDec d
  | some (some (d :: rest)) => okDec (f d rest)

def stringPart (ps : List Prm) (val : GoVal) (f : Bytes → Nat → Bytes) : Out :=
  match firstOfNumber ps with
  | none => .err
  | some p =>
    if !p.isInteger then .err else if p.isNegative then .err else
    let n : Nat := if Dec.cmp p ⟨2147483647, 0⟩ == .lt then p.intPart.toNat else 2147483647
    match val with
    | .str false s => okStr (f s n)
    | _ => .err

/-- the range of the exponent of a decimal.Decimal (an int32) -/
def inI32 (e : Int) : Bool := decide (-2147483648 ≤ e) && decide (e ≤ 2147483647)

/-- the functions that need neither the evaluator nor an external engine -/
def pureFunc (name : String) (ps : List Prm) (val : GoVal) : Option Out :=
  let decBool (f : Ordering → Bool) : Out :=
    match firstOfNumber ps with
    | none => .err
    | some p => match val with | .dec d => okBool (f (Dec.cmp d p)) | _ => .err
  let strBool (f : Bytes → Bytes → Bool) (inv : Bool) : Out :=
    match firstOfString ps with
    | none => .err
    | some p => match val with | .str false s => okBool (f s p != inv) | _ => .err
  let equal : Out :=
    if ps.length != 1 then .err else
    match ps.head!, val with
    | .num p, .dec d => okBool (Dec.cmp d p == .eq)
    | _, .dec _ => okBool false
    | p, v => okBool (goEq v p)
  let neg (o : Out) : Out := match o with | .ok (.bool _ b) => okBool (!b) | o => o
  let decOp (f : Dec → Dec → Dec) (guardZero : Bool) (inRange : Dec → Dec → Bool) : Out :=
    match firstOfNumber ps with
    | none => .err
    | some p =>
      if guardZero && p.isZero then .err else
      match val with | .dec d => if inRange d p then okDec (f d p) else .err | _ => .err
  let count0 : Bool := ps.isEmpty
  let isNull := isNilVal val
  let isEmpty := match val with | .nil => true | v => cmpZero v
  let pick (sel : List RV → Option RV) : Out :=
    if !count0 then .err else
    let v := RV.of val
    let emptyList := match val with | .slice _ _ [] => true | .array _ [] => true | _ => false
    if emptyList then .err else
    if isEmptyValue v then okDec Dec.zero else
    match listOf val with
    | some xs => match sel xs with | some x => .ok (numberKindsToDecimal x.toAny) | none => .err
    | none => .err
  match name with
  | "Equal" => some equal
  | "NotEqual" => some (neg equal)
  | "Less" => some (decBool (· == .lt))
  | "LessOrEqual" => some (decBool (· != .gt))
  | "Greater" => some (decBool (· == .gt))
  | "GreaterOrEqual" => some (decBool (· != .lt))
  | "Invert" | "Not" => some (match val with | .bool false b => okBool (!b) | _ => .err)
  | "Contains" => some (strBool (fun s p => isInfix p s) false)
  | "NotContains" => some (strBool (fun s p => isInfix p s) true)
  | "Prefix" => some (strBool (fun s p => p.isPrefixOf s) false)
  | "NotPrefix" => some (strBool (fun s p => p.isPrefixOf s) true)
  | "Suffix" => some (strBool (fun s p => p.isSuffixOf s) false)
  | "NotSuffix" => some (strBool (fun s p => p.isSuffixOf s) true)
  | "Count" => some (
      if !count0 then .err else
      let v := RV.of val
      if isEmptyValue v then okDec Dec.zero else
      match listOf val with | some xs => okDec (Dec.ofNat xs.length) | none => okDec Dec.zero)
  | "Any" => some (
      if !count0 then .err else
      let v := RV.of val
      if isEmptyValue v then okBool false else
      match v.derefOnce with
      | .val (.slice _ _ xs) => okBool (!xs.isEmpty)
      | .val (.array _ xs) => okBool (!xs.isEmpty)
      | .val (.struct n vs) => okBool (reflZero (.struct n vs))
      | .val (.dec _) => okBool false
      | _ => okBool false)
  | "First" => some (pick (fun xs => xs.head?))
  | "Last" => some (pick (fun xs => xs.getLast?))
  | "Index" => some (
      match firstOfNumber ps with
      | none => .err
      | some p =>
        if !p.isInteger then .err else
        let v := RV.of val
        let emptyList := match val with | .slice _ _ [] => true | .array _ [] => true | _ => false
        if emptyList then .err else
        if isEmptyValue v then okDec Dec.zero else
        match listOf val with
        | some xs =>
          if p.isNegative || Dec.cmp p (Dec.ofNat xs.length) != .lt then .err
          else match xs[p.intPart.toNat]? with | some x => .ok (numberKindsToDecimal x.toAny) | none => .err
        | none => .err)
  | "Sum" => some (decimalSlice ps val Dec.sumL)
  | "Average" => some (decimalSlice ps val Dec.avgL)
  | "Minimum" => some (decimalSlice ps val Dec.minL)
  | "Maximum" => some (decimalSlice ps val Dec.maxL)
  | "AsArray" => some (.ok (.slice true false [val]))
  -- funcs.go stringToObjectFunc + json.Unmarshal into map[string]any (Mp/Json.lean: plain ASCII JSON; anything else is declined)
  | "ParseJSON" => some (
      if !count0 then .err else
      if isEmptyValue (RV.of val) then .ok (.map .str true [] []) else
      match val with
      | .str false s =>
        (match GoJson.unmarshalObject s with
         | none => .unmodelled
         | some none => .err
         | some (some m) => .ok m)
      | _ => .err)
  -- funcs.go func_AsJSON + json.Marshal (Mp/JsonOut.lean; floats, structs, []byte and text that is not ASCII are declined)
  | "AsJSON" => some (
      if !count0 then .err else
      if isEmptyValue (RV.of val) then .ok (.str false []) else
      match GoJson.marshal val with
      | .ok t => .ok (.str false t)
      | .bad => .err
      | .decline => .unmodelled)
  | "Add" => some (decOp Dec.add false (fun _ _ => true))
  | "Subtract" => some (decOp Dec.sub false (fun _ _ => true))
  | "Multiply" => some (decOp Dec.mul false (fun d p => inI32 (d.exp + p.exp)))   -- the decimal type holds its exponent in 32 bits: a product outside that range is an error
  | "Divide" => some (decOp Dec.div true (fun _ _ => true))
  | "Modulo" => some (decOp Dec.mod true (fun _ _ => true))
  | "AnyOf" => some (
      let all := prmAll ps
      let rec go : List Prm → Bool
        | [] => false
        | p :: rest =>
          match val, p with
          | .dec d, .num q => if Dec.cmp d q == .eq then true else go rest
          | .dec _, _ => false
          | v, p => if goEq v p then true else go rest
      okBool (go all))
  | "TrimRight" => some (stringPart ps val (fun s i => if s.length ≤ i then [] else s.take (s.length - i)))
  | "TrimLeft" => some (stringPart ps val (fun s i => if s.length ≤ i then [] else s.drop i))
  | "Right" => some (stringPart ps val (fun s i => if s.length < i then s else s.drop (s.length - i)))
  | "Left" => some (stringPart ps val (fun s i => if s.length < i then s else s.take i))
  | "ReplaceAll" => some (
      if ps.length != 2 then .err else
      match prmStrings ps with
      | find :: repl :: _ => if find.isEmpty then .err else (match val with | .str false s => okStr (replaceAllB s find repl) | _ => .err)
      | [find] => if find.isEmpty then .err else .err
      | _ => .err)
  | "IsNull" => some (if !count0 then .err else okBool isNull)
  | "IsNotNull" => some (if !count0 then .err else okBool (!isNull))
  | "IsEmpty" => some (if !count0 then .err else okBool isEmpty)
  | "IsNotEmpty" => some (if !count0 then .err else okBool (!isEmpty))
  | "IsNullOrEmpty" => some (if !count0 then .err else okBool (isNull || isEmpty))
  | "IsNotNullOrEmpty" => some (if !count0 then .err else okBool (!(isNull || isEmpty)))
  | "RemoveKeysByPrefix" => some (
      if ps.length != 1 then .err else
      match firstOfString ps with
      | none => .err
      | some p => match (RV.of val).derefOnce with
        | .val (.map kk _ keys vals) =>
          let kept := (keys.zip vals).filter (fun kv => !(p.isPrefixOf kv.1))
          .ok (.map kk false (kept.map (·.1)) (kept.map (·.2)))
        | _ => .err)
  | "RemoveKeysBySuffix" => some (
      if ps.length != 1 then .err else
      match firstOfString ps with
      | none => .err
      | some p => match (RV.of val).derefOnce with
        | .val (.map kk _ keys vals) =>
          let kept := (keys.zip vals).filter (fun kv => !(p.isSuffixOf kv.1))
          .ok (.map kk false (kept.map (·.1)) (kept.map (·.2)))
        | _ => .err)
  | _ => none

def isSliceKind (v : GoVal) : Option (List GoVal) :=
  match v with
  | .slice _ _ xs => some xs
  | .array _ xs => some xs
  | _ => none

/-- helpers.go objectAsMap: a struct (behind any number of pointers) becomes the map of its exported fields -/
def objectAsMap : GoVal → GoVal
  | .ptr false v => (match objectAsMap v with
      | .map kk n ks vs => .map kk n ks vs
      | _ => .ptr false v)
  | .struct names vals =>
      let kept := (names.zip vals).filter (fun p => p.1.2)
      .map .str false (kept.map (·.1.1)) (kept.map (·.2))
  | v => v

end Mp
