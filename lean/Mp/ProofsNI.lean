import Mp.EvalS
/-! Prototype: C20 — non-interference. Evaluation depends on the original data only through the root fields that
    the analysis lists. Core-only. -/
namespace Mp

/-! the analysis, on the elaborated tree: the first key of every `$`-path, wherever it occurs -/
mutual
def rfPath : EPath → List Bytes
  | .mk root _ ops =>
    (match root, ops with
     | true, .ident k _ :: _ => [k]
     | _, _ => []) ++ rfParts ops
def rfParts : List EPart → List Bytes
  | [] => []
  | p :: ps => rfPart p ++ rfParts ps
def rfPart : EPart → List Bytes
  | .ident _ _ => []
  | .filter lo => rfLogic lo
  | .func _ params _ => rfParams params       -- the sub-query of Select never sees the original data
def rfParams : List EParam → List Bytes
  | [] => []
  | p :: ps => rfParam p ++ rfParams ps
def rfParam : EParam → List Bytes
  | .path p => rfPath p
  | .logic l => rfLogic l
  | _ => []
def rfLogic : ELogic → List Bytes
  | .mk _ ops => rfLParts ops
def rfLParts : List ELPart → List Bytes
  | [] => []
  | p :: ps => rfLPart p ++ rfLParts ps
def rfLPart : ELPart → List Bytes
  | .path p => rfPath p
  | .logic l => rfLogic l
end

/-! every `$`-path begins with a key -/
mutual
def wrPath : EPath → Bool
  | .mk root _ ops =>
    (match root, ops with
     | true, .ident _ _ :: _ => true
     | true, _ => false
     | false, _ => true) && wrParts ops
def wrParts : List EPart → Bool
  | [] => true
  | p :: ps => wrPart p && wrParts ps
def wrPart : EPart → Bool
  | .ident _ _ => true
  | .filter lo => wrLogic lo
  | .func _ params _ => wrParams params
def wrParams : List EParam → Bool
  | [] => true
  | p :: ps => wrParam p && wrParams ps
def wrParam : EParam → Bool
  | .path p => wrPath p
  | .logic l => wrLogic l
  | _ => true
def wrLogic : ELogic → Bool
  | .mk _ ops => wrLParts ops
def wrLParts : List ELPart → Bool
  | [] => true
  | p :: ps => wrLPart p && wrLParts ps
def wrLPart : ELPart → Bool
  | .path p => wrPath p
  | .logic l => wrLogic l
end

/-- the two original documents answer the same for every listed key -/
def Agree (R : List Bytes) (o o' : GoVal) : Prop := ∀ k ∈ R, identDo k o = identDo k o'

theorem Agree.mono {R S : List Bytes} {o o'} (h : Agree R o o') (hs : ∀ k ∈ S, k ∈ R) : Agree S o o' :=
  fun k hk => h k (hs k hk)

theorem agree_app_left {A B o o'} (h : Agree (A ++ B) o o') : Agree A o o' := h.mono (fun k hk => List.mem_append.mpr (Or.inl hk))
theorem agree_app_right {A B o o'} (h : Agree (A ++ B) o o') : Agree B o o' := h.mono (fun k hk => List.mem_append.mpr (Or.inr hk))

theorem filterList_congr (f g : GoVal → Out) (h : ∀ x, f x = g x) : ∀ xs acc, filterList f xs acc = filterList g xs acc := by
  intro xs
  induction xs with
  | nil => intro acc; rfl
  | cons x xs ih => intro acc; unfold filterList; rw [h x]; split <;> simp [ih]

mutual
theorem ni_parts (ops : List EPart) (o o' : GoVal) (hw : wrParts ops = true) (ha : Agree (rfParts ops) o o') :
    ∀ data pn pv, sParts ops data o pn pv = sParts ops data o' pn pv := by
  intro data pn pv
  cases ops with
  | nil => rfl
  | cons op rest =>
    have hw1 : wrPart op = true ∧ wrParts rest = true := by unfold wrParts at hw; simpa using hw
    have ha1 : Agree (rfPart op) o o' := by unfold rfParts at ha; exact agree_app_left ha
    have ha2 : Agree (rfParts rest) o o' := by unfold rfParts at ha; exact agree_app_right ha
    unfold sParts
    rw [ni_part op o o' hw1.1 ha1 data]
    generalize sPart op data o' = r
    cases r <;> first
      | rfl
      | (simp only []; (repeat' split) <;> first | rfl | exact ni_parts rest o o' hw1.2 ha2 _ _ _)
termination_by structural ops

theorem ni_part (op : EPart) (o o' : GoVal) (hw : wrPart op = true) (ha : Agree (rfPart op) o o') :
    ∀ cur, sPart op cur o = sPart op cur o' := by
  intro cur
  cases op with
  | ident name prop => unfold sPart; rfl
  | filter lo =>
    have hw' : wrLogic lo = true := by unfold wrPart at hw; exact hw
    have ha' : Agree (rfLogic lo) o o' := by unfold rfPart at ha; exact ha
    unfold sPart
    split
    · rfl
    · rw [ni_logic lo o o' hw' ha']
    · split
      · exact filterList_congr _ _ (fun x => ni_logic lo o o' hw' ha' x) _ _
      · rfl
  | func name params sel =>
    have hw' : wrParams params = true := by unfold wrPart at hw; exact hw
    have ha' : Agree (rfParams params) o o' := by unfold rfPart at ha; exact ha
    unfold sPart
    rw [ni_params params o o' hw' ha' cur]
termination_by structural op

theorem ni_params (ps : List EParam) (o o' : GoVal) (hw : wrParams ps = true) (ha : Agree (rfParams ps) o o') :
    ∀ cur, sParams ps cur o = sParams ps cur o' := by
  intro cur
  cases ps with
  | nil => rfl
  | cons p rest =>
    have hw1 : wrParam p = true ∧ wrParams rest = true := by unfold wrParams at hw; simpa using hw
    have ha1 : Agree (rfParam p) o o' := by unfold rfParams at ha; exact agree_app_left ha
    have ha2 : Agree (rfParams rest) o o' := by unfold rfParams at ha; exact agree_app_right ha
    unfold sParams
    rw [ni_param p o o' hw1.1 ha1 cur, ni_params rest o o' hw1.2 ha2 cur]
termination_by structural ps

theorem ni_param (p : EParam) (o o' : GoVal) (hw : wrParam p = true) (ha : Agree (rfParam p) o o') :
    ∀ cur, sParam p cur o = sParam p cur o' := by
  intro cur
  cases p with
  | num d => rfl
  | str s => rfl
  | bool b => rfl
  | path pp =>
    have hw' : wrPath pp = true := by unfold wrParam at hw; exact hw
    have ha' : Agree (rfPath pp) o o' := by unfold rfParam at ha; exact ha
    unfold sParam
    rw [ni_path_full pp o o' hw' ha' cur]
  | logic l =>
    have hw' : wrLogic l = true := by unfold wrParam at hw; exact hw
    have ha' : Agree (rfLogic l) o o' := by unfold rfParam at ha; exact ha
    unfold sParam
    rw [ni_logic l o o' hw' ha' cur]
termination_by structural p

/-- the full statement for paths, including `$`-paths: their first step reads only its own key -/
theorem ni_path_full (p : EPath) (o o' : GoVal) (hw : wrPath p = true) (ha : Agree (rfPath p) o o') :
    ∀ cur, sPath p cur o = sPath p cur o' := by
  intro cur
  cases p with
  | mk root isFilter ops =>
    unfold sPath
    cases root with
    | false =>
      simp only [Bool.false_and, Bool.false_eq_true, if_false]
      have hw' : wrParts ops = true := by unfold wrPath at hw; simp at hw; exact hw
      have ha' : Agree (rfParts ops) o o' := by unfold rfPath at ha; simpa using ha
      cases ops with
      | nil => rfl
      | cons a b => exact ni_parts (a :: b) o o' hw' ha' cur false none
    | true =>
      cases ops with
      | nil => unfold wrPath at hw; simp at hw
      | cons a b =>
        cases a with
        | ident k prop =>
          have hw' : wrParts b = true := by unfold wrPath wrParts wrPart at hw; simpa using hw
          have hk : identDo k o = identDo k o' := ha k (by unfold rfPath; simp)
          have ha' : Agree (rfParts b) o o' := by
            unfold rfPath rfParts rfPart at ha
            exact ha.mono (fun x hx => by simp [hx])
          split
          · rfl
          · simp only [if_true]
            -- one step of the loop on each side, then the tails agree
            unfold sParts
            simp only [Option.isSome_none, Bool.false_and, Bool.false_eq_true, if_false]
            have h1 : sPart (.ident k prop) o o = identDo k o := by unfold sPart; rfl
            have h2 : sPart (.ident k prop) o' o' = identDo k o' := by unfold sPart; rfl
            rw [h1, h2, hk]
            generalize identDo k o' = r
            cases r <;> first
              | rfl
              | (simp only []; (repeat' split) <;> first | rfl | exact ni_parts b o o' hw' ha' _ _ _)
        | filter lo => unfold wrPath at hw; simp at hw
        | func n ps sel => unfold wrPath at hw; simp at hw
termination_by structural p

theorem ni_logic (l : ELogic) (o o' : GoVal) (hw : wrLogic l = true) (ha : Agree (rfLogic l) o o') :
    ∀ cur, sLogic l cur o = sLogic l cur o' := by
  intro cur
  cases l with
  | mk ty ops =>
    unfold sLogic
    exact ni_lparts ty ops o o' (by unfold wrLogic at hw; exact hw) (by unfold rfLogic at ha; exact ha) cur
termination_by structural l

theorem ni_lparts (ty : Bytes) (ops : List ELPart) (o o' : GoVal) (hw : wrLParts ops = true) (ha : Agree (rfLParts ops) o o') :
    ∀ cur, sLParts ty ops cur o = sLParts ty ops cur o' := by
  intro cur
  cases ops with
  | nil => rfl
  | cons op rest =>
    have hw1 : wrLPart op = true ∧ wrLParts rest = true := by unfold wrLParts at hw; simpa using hw
    have ha1 : Agree (rfLPart op) o o' := by unfold rfLParts at ha; exact agree_app_left ha
    have ha2 : Agree (rfLParts rest) o o' := by unfold rfLParts at ha; exact agree_app_right ha
    unfold sLParts
    rw [ni_lpart op o o' hw1.1 ha1 cur]
    generalize sLPart op cur o' = r
    cases r <;> first
      | rfl
      | ((repeat' split) <;> first | rfl | exact ni_lparts ty rest o o' hw1.2 ha2 cur)
termination_by structural ops

theorem ni_lpart (op : ELPart) (o o' : GoVal) (hw : wrLPart op = true) (ha : Agree (rfLPart op) o o') :
    ∀ cur, sLPart op cur o = sLPart op cur o' := by
  intro cur
  cases op with
  | path p =>
    unfold sLPart
    exact ni_path_full p o o' (by unfold wrLPart at hw; exact hw) (by unfold rfLPart at ha; exact ha) cur
  | logic l =>
    unfold sLPart
    exact ni_logic l o o' (by unfold wrLPart at hw; exact hw) (by unfold rfLPart at ha; exact ha) cur
termination_by structural op
end

#print axioms ni_path_full
end Mp
