import Mp.Lex
/-! Prototype: strconv.ParseFloat(s, 64) (syntax + correctly rounded value) and decimal.NewFromFloat's shortest digits,
    in exact integer arithmetic. Core-only. -/
namespace Mp

inductive PF where
  | syntaxErr | rangeErr | nan
  | inf (neg : Bool)
  /-- value = mant · 2^(exp-52); mant < 2^53; exp ≥ -1022; mant = 0 means zero -/
  | fin (neg : Bool) (mant : Nat) (exp : Int)
deriving Repr, DecidableEq, Inhabited

def lowerB (c : UInt8) : UInt8 := if 65 ≤ c.toNat && c.toNat ≤ 90 then c + 32 else c

def commonPrefixLenIgnoreCase : Bytes → Bytes → Nat
  | a :: as, b :: bs => if lowerB a == b then 1 + commonPrefixLenIgnoreCase as bs else 0
  | _, _ => 0

def str (s : String) : Bytes := s.toUTF8.toList

/-- strconv.special: returns (result, consumed) -/
def special (s : Bytes) : Option (PF × Nat) :=
  match s with
  | [] => none
  | c :: t =>
    let infCase (neg : Bool) (nsign : Nat) (body : Bytes) : Option (PF × Nat) :=
      let n := commonPrefixLenIgnoreCase body (str "infinity")
      let n := if 3 < n && n < 8 then 3 else n
      if n == 3 || n == 8 then some (.inf neg, nsign + n) else none
    if c == 43 then infCase false 1 t
    else if c == 45 then infCase true 1 t
    else if c == 105 || c == 73 then infCase false 0 s
    else if c == 110 || c == 78 then
      if commonPrefixLenIgnoreCase s (str "nan") == 3 then some (.nan, 3) else none
    else none

def isDig (c : UInt8) : Bool := 48 ≤ c.toNat && c.toNat ≤ 57
def isHexLetter (c : UInt8) : Bool := let l := (lowerB c).toNat; 97 ≤ l && l ≤ 102

/-- strconv.underscoreOK -/
def underscoreOK (s0 : Bytes) : Bool :=
  let s := match s0 with
    | c :: t => if c == 45 || c == 43 then t else s0
    | [] => s0
  let (s, saw0, hex) := match s with
    | a :: b :: t =>
      if a == 48 && (lowerB b == 98 || lowerB b == 111 || lowerB b == 120) then (t, '0', lowerB b == 120) else (s, '^', false)
    | _ => (s, '^', false)
  let rec go (l : Bytes) (saw : Char) : Bool :=
    match l with
    | [] => saw != '_'
    | c :: t =>
      if isDig c || (hex && isHexLetter c) then go t '0'
      else if c == 95 then (if saw != '0' then false else go t '_')
      else if saw == '_' then false
      else go t '!'
  go s saw0

structure RF where
  mant : Nat        -- all mantissa digits as a number in `base` (no truncation: exact)
  neg : Bool
  hex : Bool
  dp : Int          -- position of the point relative to the digits (in digits; ×4 applied later for hex)
  nd : Nat
  consumed : Nat
  ok : Bool
deriving Repr

/-- strconv.readFloat, but keeping every mantissa digit (the Go result is correctly rounded either way;
    for hex Go keeps 16 digits + sticky bit, also correctly rounded). Returns exact (mant, exp10 or exp2). -/
def readFloat (s : Bytes) : Option (Bool × Bool × Nat × Int × Nat) := Id.run do
  -- returns (neg, hex, mantissa, exponent (base 10 or base 2), consumed)
  let n := s.length
  let a := s.toArray
  let mut i := 0
  let mut neg := false
  let mut underscores := false
  if i ≥ n then return none
  if a[i]! == 43 then i := i + 1 else if a[i]! == 45 then neg := true; i := i + 1
  let mut base := 10
  let mut expChar : UInt8 := 101
  let mut hex := false
  if i + 2 < n && a[i]! == 48 && lowerB a[i+1]! == 120 then
    base := 16; i := i + 2; expChar := 112; hex := true
  let mut sawdot := false
  let mut sawdigits := false
  let mut nd : Nat := 0
  let mut dp : Int := 0
  let mut mant : Nat := 0
  let mut fin := false
  while i < n && !fin do
    let c := a[i]!
    if c == 95 then underscores := true; i := i + 1
    else if c == 46 then
      if sawdot then fin := true
      else sawdot := true; dp := nd; i := i + 1
    else if isDig c then
      sawdigits := true
      if c == 48 && nd == 0 then dp := dp - 1; i := i + 1
      else nd := nd + 1; mant := mant * base + (c.toNat - 48); i := i + 1
    else if base == 16 && isHexLetter c then
      sawdigits := true; nd := nd + 1; mant := mant * 16 + ((lowerB c).toNat - 97 + 10); i := i + 1
    else fin := true
  if !sawdigits then return none
  if !sawdot then dp := nd
  let mut ndI : Int := nd
  if base == 16 then dp := dp * 4; ndI := ndI * 4
  if i < n && lowerB a[i]! == expChar then
    i := i + 1
    if i ≥ n then return none
    let mut esign : Int := 1
    if a[i]! == 43 then i := i + 1 else if a[i]! == 45 then i := i + 1; esign := -1
    if i ≥ n || !(isDig a[i]!) then return none
    let mut e : Nat := 0
    while i < n && (isDig a[i]! || a[i]! == 95) do
      if a[i]! == 95 then underscores := true
      else if e < 10000 then e := e * 10 + (a[i]!.toNat - 48)
      i := i + 1
    dp := dp + (e : Int) * esign
  else if base == 16 then return none
  let exp : Int := if mant != 0 then dp - ndI else 0
  if underscores && !underscoreOK (s.take i) then return none
  return some (neg, hex, mant, exp, i)

def bitLen (n : Nat) : Nat := if n == 0 then 0 else Nat.log2 n + 1

/-- round the positive rational N/D to binary64 (nearest, ties to even). -/
def roundRat (neg : Bool) (N D : Nat) : PF :=
  if N == 0 then .fin neg 0 (-1022) else
  let q0 (t : Int) : Nat := if t ≥ 0 then N / (D * 2 ^ t.toNat) else (N * 2 ^ (-t).toNat) / D
  let t : Int := (bitLen N : Int) - (bitLen D : Int) - 53
  let t := if q0 t ≥ 2 ^ 53 then t + 1 else t
  let t := if q0 t ≥ 2 ^ 53 then t + 1 else t
  let t := if q0 t < 2 ^ 52 then t - 1 else t
  let t := if q0 t < 2 ^ 52 then t - 1 else t
  let t := if t < -1074 then -1074 else t
  let (N', D') : Nat × Nat := if t ≥ 0 then (N, D * 2 ^ t.toNat) else (N * 2 ^ (-t).toNat, D)
  let q := N' / D'
  let r := N' % D'
  let up := 2 * r > D' || (2 * r == D' && q % 2 == 1)
  let q := if up then q + 1 else q
  let (q, t) := if q == 2 ^ 53 then (2 ^ 52, t + 1) else (q, t)
  if t + 52 > 1023 then .rangeErr
  else .fin neg q (t + 52)

def parseFloat (s : Bytes) : PF :=
  match special s with
  | some (r, n) => if n == s.length then r else .syntaxErr
  | none =>
    match readFloat s with
    | none => .syntaxErr
    | some (neg, hex, mant, exp, consumed) =>
      if consumed != s.length then .syntaxErr
      else if mant == 0 then .fin neg 0 (-1022)
      else
        let base : Nat := if hex then 2 else 10
        -- guard against astronomically large exponents (Go caps the exponent digits at 10000·10)
        if !hex && exp > 400 then .rangeErr
        else if !hex && exp < -1200 - (bitLen mant : Int) then .fin neg 0 (-1022)
        else if hex && exp > 1100 then .rangeErr
        else if hex && exp < -1200 - (bitLen mant : Int) then .fin neg 0 (-1022)
        else if exp ≥ 0 then roundRat neg (mant * base ^ exp.toNat) 1
        else roundRat neg mant (base ^ (-exp).toNat)

/-- exact decimal expansion of m·2^e: (digits without trailing zeros, dp) with value = 0.d₀d₁… × 10^dp -/
def expand (m : Nat) (e : Int) : List Nat × Int :=
  let (n, shift) : Nat × Nat := if e ≥ 0 then (m * 2 ^ e.toNat, 0) else (m * 5 ^ (-e).toNat, (-e).toNat)
  let ds := (Nat.toDigits 10 n).map (fun c => c.toNat - 48)
  let dp : Int := (ds.length : Int) - shift
  let ds := (ds.reverse.dropWhile (· == 0)).reverse
  if ds.isEmpty then ([], 0) else (ds, dp)

def roundDown (d : List Nat) (dp : Int) (nd : Nat) : List Nat × Int :=
  if nd ≥ d.length then (d, dp) else
  let ds := ((d.take nd).reverse.dropWhile (· == 0)).reverse
  if ds.isEmpty then ([], 0) else (ds, dp)

def roundUp (d : List Nat) (dp : Int) (nd : Nat) : List Nat × Int :=
  if nd ≥ d.length then (d, dp) else
  -- find last index i < nd with digit < 9
  let pre := d.take nd
  let stripped := pre.reverse.dropWhile (· == 9)
  match stripped with
  | [] => ([1], dp + 1)
  | c :: rest => (((c + 1) :: rest).reverse, dp)

def shouldRoundUp (d : List Nat) (nd : Nat) : Bool :=
  if nd ≥ d.length then false else
  if d[nd]! == 5 && nd + 1 == d.length then nd > 0 && d[nd-1]! % 2 != 0
  else d[nd]! ≥ 5

def roundHalfEven (d : List Nat) (dp : Int) (nd : Nat) : List Nat × Int :=
  if nd ≥ d.length then (d, dp) else
  if shouldRoundUp d nd then roundUp d dp nd else roundDown d dp nd

/-- decimal.roundShortest for float64: returns (digits, dp). `exp` is the unbiased exponent (value = mant·2^(exp-52)). -/
def shortest (mant : Nat) (exp : Int) : List Nat × Int := Id.run do
  if mant == 0 then return ([], 0)
  let (d, ddp) := expand mant (exp - 52)
  let minexp : Int := -1022
  if exp > minexp && 332 * (ddp - (d.length : Int)) ≥ 100 * (exp - 52) then return (d, ddp)
  let (u, udp) := expand (mant * 2 + 1) (exp - 53)
  let (mantlo, explo) : Nat × Int := if mant > 2 ^ 52 || exp == minexp then (mant - 1, exp) else (mant * 2 - 1, exp - 1)
  let (l, ldp) := expand (mantlo * 2 + 1) (explo - 53)
  let inclusive := mant % 2 == 0
  let mut upperdelta := 0
  let mut ui : Nat := 0
  let da := d.toArray; let ua := u.toArray; let la := l.toArray
  let mut result : Option (List Nat × Int) := none
  let mut go := true
  while go do
    let mi : Int := (ui : Int) - udp + ddp
    if mi ≥ (d.length : Int) then go := false
    else
      let li : Int := (ui : Int) - udp + ldp
      let lD := if li ≥ 0 && li < (l.length : Int) then la[li.toNat]! else 0
      let mD := if mi ≥ 0 then da[mi.toNat]! else 0
      let uD := if ui < u.length then ua[ui]! else 0
      let okdown := lD != mD || (inclusive && li + 1 == (l.length : Int))
      if upperdelta == 0 && mD + 1 < uD then upperdelta := 2
      else if upperdelta == 0 && mD != uD then upperdelta := 1
      else if upperdelta == 1 && (mD != 9 || uD != 0) then upperdelta := 2
      let okup := upperdelta > 0 && (inclusive || upperdelta > 1 || ui + 1 < u.length)
      let n := (mi + 1).toNat
      if okdown && okup then result := some (roundHalfEven d ddp n); go := false
      else if okdown then result := some (roundDown d ddp n); go := false
      else if okup then result := some (roundUp d ddp n); go := false
      else ui := ui + 1
  return result.getD (d, ddp)

/-- decimal.NewFromFloat on a finite float: (coef, exp) -/
def decOfFloat (neg : Bool) (mant : Nat) (exp : Int) : Int × Int :=
  if mant == 0 then (0, 0) else
  let (ds, dp) := shortest mant exp
  let n : Nat := ds.foldl (fun (a : Nat) (x : Nat) => a * 10 + x) 0
  ((if neg then -(n : Int) else (n : Int)), dp - (ds.length : Int))

end Mp
