import Mp.DivProofs
/-! Prototype: connect Dec.divRound to the integer core, giving the C04 bound for Divide. -/
namespace Mp
namespace Dec

/-- numerator / denominator that QuoRem forms -/
def qrArgs (d d2 : Dec) (prec : Int) : Int × Int :=
  let e := d.exp - d2.exp + prec
  if e < 0 then (d.coef, d2.coef * 10 ^ (-e).toNat) else (d.coef * 10 ^ e.toNat, d2.coef)

theorem quoRem_eq (d d2 : Dec) (prec : Int) :
    quoRem d d2 prec =
      (⟨Int.tdiv (qrArgs d d2 prec).1 (qrArgs d d2 prec).2, -prec⟩,
       ⟨Int.tmod (qrArgs d d2 prec).1 (qrArgs d d2 prec).2, if d.exp - d2.exp + prec < 0 then d.exp else -prec + d2.exp⟩) := by
  unfold quoRem qrArgs
  have : d.exp - d2.exp - -prec = d.exp - d2.exp + prec := by omega
  simp only [this]
  split <;> rfl

theorem pow_pos' (n : Nat) : (0 : Int) < 10 ^ n := by positivity

theorem sign_mul_pow (x : Int) (n : Nat) : sign (x * 10 ^ n) = sign x := by
  have hp := pow_pos' n
  unfold sign
  rcases lt_trichotomy x 0 with h | h | h
  · have : x * 10 ^ n < 0 := Int.mul_neg_of_neg_of_pos h hp
    simp [h, this]
  · subst h; simp
  · have h1 : 0 < x * 10 ^ n := Int.mul_pos h hp
    have h2 : ¬ x * 10 ^ n < 0 := by omega
    have h3 : ¬ x < 0 := by omega
    simp [h1, h2, h3, h]

theorem qrArgs_sign (d d2 : Dec) (prec : Int) :
    sign (qrArgs d d2 prec).1 = sign d.coef ∧ sign (qrArgs d d2 prec).2 = sign d2.coef := by
  unfold qrArgs
  simp only
  split
  · exact ⟨rfl, sign_mul_pow _ _⟩
  · exact ⟨sign_mul_pow _ _, rfl⟩

theorem qrArgs_den_ne (d d2 : Dec) (prec : Int) (h : d2.coef ≠ 0) : (qrArgs d d2 prec).2 ≠ 0 := by
  unfold qrArgs
  simp only
  split
  · exact Int.mul_ne_zero h (by have := pow_pos' (-(d.exp - d2.exp + prec)).toNat; omega)
  · exact h

/-- the quotient QuoRem divides is the true quotient shifted by the precision -/
theorem qrArgs_ratio (d d2 : Dec) (prec : Int) (h : d2.coef ≠ 0) :
    ((qrArgs d d2 prec).1 : ℚ) / (qrArgs d d2 prec).2 = d.toRat / d2.toRat * (10 : ℚ) ^ prec := by
  have hc : (d2.coef : ℚ) ≠ 0 := by exact_mod_cast h
  unfold qrArgs toRat
  simp only
  split
  · rename_i he
    obtain ⟨k, hk⟩ : ∃ k : ℕ, -(d.exp - d2.exp + prec) = k := ⟨(-(d.exp - d2.exp + prec)).toNat, by omega⟩
    simp only [hk, Int.toNat_natCast]
    push_cast
    have hp : prec = d2.exp - d.exp - k := by omega
    rw [hp]
    have h10 := ten_ne
    rw [zpow_sub₀ h10, zpow_sub₀ h10, zpow_natCast]
    field_simp
  · rename_i he
    obtain ⟨k, hk⟩ : ∃ k : ℕ, d.exp - d2.exp + prec = k := ⟨(d.exp - d2.exp + prec).toNat, by omega⟩
    simp only [hk, Int.toNat_natCast]
    push_cast
    have hp : prec = (k : Int) - d.exp + d2.exp := by omega
    rw [hp]
    have h10 := ten_ne
    rw [zpow_add₀ h10, zpow_sub₀ h10, zpow_natCast]
    field_simp

#print axioms qrArgs_ratio
end Dec
end Mp
