import Mp.CacheProofs
import Mp.PoolProofs
/-! C12 — the shared state of the package as ONE transition system: any number of goroutines, each running any program of
    `ParseReadSeeker` / `CueValidate` / `Do` calls, interleaved by ANY schedule at the grain of the individual accesses to the
    shared state (mutex Lock / Unlock, read and write of `mpathOpCache` and `cueValueCache`, `scannerPool.Get` / `Put` - in
    ParseReadSeeker, in the ParseString nested in CueValidate, and in every parse a `Select` call makes while `Do` runs; the pool
    may hand out any idle scanner or a new one, and the collector may drop idle scanners at any time).

    Theorems (for every schedule, every number of goroutines, every program):
    * `calls_return_what_they_return_alone` - the results a goroutine has logged are a prefix of what its calls return when
      each is run alone in a fresh process (`expected`: the parse with a fresh scanner, `pureCall` without caches, the
      evaluation function);
    * `mutual_exclusion` - two goroutines are never inside the critical section of CueValidate together, and whoever is
      inside holds the mutex (so every cache access is made by the holder: the hypothesis of `Lockset.lockset_orders`);
    * `scanners_exclusive` - no scanner is ever held by two goroutines, nor held by one and idle in the pool.
    Core-only. -/
namespace Mp.ConcSys
open Mp Pool

/-- a pooled scanner: `id` stands for the pointer, `st` for the fields that survive between parses -/
structure PScn where
  id : Nat
  st : Scn

inductive Call (Input EvIn : Type)
  | parse (i : Input)                 -- ParseString / ParseReadSeeker
  | validate (q s cp : String)        -- CueValidate
  | eval (x : EvIn)                   -- Do on a shared operation: touches no shared state
  | evalSel (x : EvIn) (subs : List Input)  -- Do on an operation whose Select calls parse their sub-queries while it runs

inductive Ret (PRes R EvOut : Type)
  | parsed (r : PRes)
  | validated (r : Res R)
  | evaluated (y : EvOut)
deriving DecidableEq

/-- everything that is a function of its arguments -/
structure Params (Op Cue R Input PRes EvIn EvOut : Type) where
  parseWith : Scn → Input → PRes      -- the parse loop, reading the scanner configuration it is handed
  faultOf : Input → Bool              -- the reader fails
  qin : String → Input                -- strings.NewReader(query)
  asOp : PRes → Option Op             -- err != nil → none
  compile : String → Option Cue
  validate : Op → Cue → String → R
  evalF : EvIn → EvOut
  evalS : EvIn → List PRes → EvOut    -- the evaluation, given what the sub-queries of its Select calls parse to

variable {Op Cue R Input PRes EvIn EvOut : Type}

def Params.world (P : Params Op Cue R Input PRes EvIn EvOut) : World Op Cue R :=
  ⟨fun q => P.asOp (P.parseWith (reset fresh) (P.qin q)), P.compile, P.validate⟩

/-- what a call returns when it is run alone in a fresh process -/
def expected (P : Params Op Cue R Input PRes EvIn EvOut) : Call Input EvIn → Ret PRes R EvOut
  | .parse i => .parsed (P.parseWith (reset fresh) i)
  | .validate q s cp => .validated (pureCall P.world q s cp)
  | .eval x => .evaluated (P.evalF x)
  | .evalSel x subs => .evaluated (P.evalS x (subs.map (P.parseWith (reset fresh))))

/-- where a goroutine stands inside a call: one constructor per stretch between two accesses to the shared state -/
inductive PC (Op Cue R Input PRes EvIn : Type)
  | idle
  | pGot (i : Input) (sc : PScn)                       -- after scannerPool.Get()
  | vLocked (q s cp : String)                          -- after cueValidateMutex.Lock()
  | vMiss (q s cp : String)                            -- mpathOpCache[query] missed
  | vGot (q s cp : String) (sc : PScn)                 -- inside the nested ParseString, after Get
  | vParsed (q s cp : String) (r : PRes)               -- after its Put
  | vOp (q s cp : String) (op : Op)                    -- the operation is known
  | vWrite (q s cp : String) (op : Op) (v : Cue)       -- compiled, before cueValueCache[cueFile] = rootValue
  | vCue (q s cp : String) (op : Op) (v : Cue)         -- both known; the rest is local; then the deferred Unlock
  | vDone (q s cp : String) (r : Res R)                -- an error return; then the deferred Unlock
  | eSel (x : EvIn) (subs todo : List Input) (done : List PRes)          -- inside Do, between two Select parses
  | eGot (x : EvIn) (subs : List Input) (i : Input) (sc : PScn) (todo : List Input) (done : List PRes)  -- after Get

structure Shared (Op Cue : Type) where
  lock : Option Nat
  caches : Caches Op Cue
  pool : List PScn
  nextId : Nat

structure Thread (Op Cue R Input PRes EvIn EvOut : Type) where
  rem : List (Call Input EvIn)
  pc : PC Op Cue R Input PRes EvIn
  log : List (Ret PRes R EvOut)

def poolGet (sh : Shared Op Cue) (k : Nat) : PScn × Shared Op Cue :=
  match sh.pool[k]? with
  | some s => (s, { sh with pool := sh.pool.eraseIdx k })
  | none => (⟨sh.nextId, fresh⟩, { sh with nextId := sh.nextId + 1 })

def poolPut (sh : Shared Op Cue) (s : PScn) : Shared Op Cue := { sh with pool := s :: sh.pool }

/-- Reset, the parse loop, the deferred clearing: all on a scanner nobody else holds -/
def usedScanner (P : Params Op Cue R Input PRes EvIn EvOut) (sc : PScn) (i : Input) : PScn :=
  ⟨sc.id, release (afterParse (reset sc.st) (P.faultOf i))⟩

/-- one step of goroutine `t`; `k` is the pool's choice; `none` = blocked (in Lock) or finished -/
def stepT (P : Params Op Cue R Input PRes EvIn EvOut) (t k : Nat) (sh : Shared Op Cue)
    (th : Thread Op Cue R Input PRes EvIn EvOut) : Option (Shared Op Cue × Thread Op Cue R Input PRes EvIn EvOut) :=
  match th.pc with
  | .idle =>
    match th.rem with
    | [] => none
    | .eval x :: rest => some (sh, { rem := rest, pc := .idle, log := th.log ++ [.evaluated (P.evalF x)] })
    | .parse i :: rest => some ((poolGet sh k).2, { th with rem := rest, pc := .pGot i (poolGet sh k).1 })
    | .evalSel x subs :: rest => some (sh, { th with rem := rest, pc := .eSel x subs subs [] })
    | .validate q s cp :: rest =>
      if (q == "" || s == "") = true then
        some (sh, { rem := rest, pc := .idle, log := th.log ++ [.validated .missing] })
      else match sh.lock with
        | some _ => none
        | none => some ({ sh with lock := some t }, { th with rem := rest, pc := .vLocked q s cp })
  | .pGot i sc =>
    some (poolPut sh (usedScanner P sc i), { th with pc := .idle, log := th.log ++ [.parsed (P.parseWith (reset sc.st) i)] })
  | .vLocked q s cp =>
    match find? q sh.caches.ops with
    | some op => some (sh, { th with pc := .vOp q s cp op })
    | none => some (sh, { th with pc := .vMiss q s cp })
  | .vMiss q s cp => some ((poolGet sh k).2, { th with pc := .vGot q s cp (poolGet sh k).1 })
  | .vGot q s cp sc =>
    some (poolPut sh (usedScanner P sc (P.qin q)), { th with pc := .vParsed q s cp (P.parseWith (reset sc.st) (P.qin q)) })
  | .vParsed q s cp r =>
    match P.asOp r with
    | none => some (sh, { th with pc := .vDone q s cp .parseErr })
    | some op => some ({ sh with caches := { sh.caches with ops := (q, op) :: sh.caches.ops } }, { th with pc := .vOp q s cp op })
  | .vOp q s cp op =>
    match find? s sh.caches.cues with
    | some v => some (sh, { th with pc := .vCue q s cp op v })
    | none =>
      match P.compile s with
      | none => some (sh, { th with pc := .vDone q s cp .cueErr })
      | some v => some (sh, { th with pc := .vWrite q s cp op v })
  | .vWrite q s cp op v =>
    some ({ sh with caches := { sh.caches with cues := (s, v) :: sh.caches.cues } }, { th with pc := .vCue q s cp op v })
  | .vCue _ _ cp op v =>
    some ({ sh with lock := none }, { th with pc := .idle, log := th.log ++ [.validated (.done (P.validate op v cp))] })
  | .vDone _ _ _ r =>
    some ({ sh with lock := none }, { th with pc := .idle, log := th.log ++ [.validated r] })
  | .eSel x _ [] done => some (sh, { th with pc := .idle, log := th.log ++ [.evaluated (P.evalS x done)] })
  | .eSel x subs (i :: todo) done => some ((poolGet sh k).2, { th with pc := .eGot x subs i (poolGet sh k).1 todo done })
  | .eGot x subs i sc todo done =>
    some (poolPut sh (usedScanner P sc i), { th with pc := .eSel x subs todo (done ++ [P.parseWith (reset sc.st) i]) })

structure Sys (Op Cue R Input PRes EvIn EvOut : Type) where
  sh : Shared Op Cue
  th : Nat → Thread Op Cue R Input PRes EvIn EvOut

inductive Ev | run (t k : Nat) | gc (k : Nat)

def stepSys (P : Params Op Cue R Input PRes EvIn EvOut) (σ : Sys Op Cue R Input PRes EvIn EvOut) :
    Ev → Sys Op Cue R Input PRes EvIn EvOut
  | .run t k =>
    match stepT P t k σ.sh (σ.th t) with
    | none => σ
    | some r => ⟨r.1, fun u => if u = t then r.2 else σ.th u⟩
  | .gc k => { σ with sh := { σ.sh with pool := σ.sh.pool.eraseIdx k } }

def runSys (P : Params Op Cue R Input PRes EvIn EvOut) (σ : Sys Op Cue R Input PRes EvIn EvOut) (evs : List Ev) :
    Sys Op Cue R Input PRes EvIn EvOut := evs.foldl (stepSys P) σ

/-- a fresh process: nothing cached, nothing pooled, nobody holds the mutex, goroutine `t` is about to run `progs t` -/
def init (progs : Nat → List (Call Input EvIn)) : Sys Op Cue R Input PRes EvIn EvOut :=
  ⟨⟨none, Caches.empty, [], 0⟩, fun t => ⟨progs t, .idle, []⟩⟩

/-! ### the invariants -/

theorem reset_canonical (s : Scn) (h : PoolInv s) : reset s = reset fresh := by
  obtain ⟨h1, h2⟩ := h
  cases s
  simp_all [reset, fresh]

def nm (q s : String) : Prop := (q == "" || s == "") = false

/-- what the program counter knows -/
def pcOK (P : Params Op Cue R Input PRes EvIn EvOut) : PC Op Cue R Input PRes EvIn → Prop
  | .idle => True
  | .pGot _ sc => PoolInv sc.st
  | .vLocked q s _ => nm q s
  | .vMiss q s _ => nm q s
  | .vGot q s _ sc => nm q s ∧ PoolInv sc.st
  | .vParsed q s _ r => nm q s ∧ r = P.parseWith (reset fresh) (P.qin q)
  | .vOp q s _ op => nm q s ∧ P.world.parse q = some op
  | .vWrite q s _ op v => nm q s ∧ P.world.parse q = some op ∧ P.compile s = some v
  | .vCue q s _ op v => nm q s ∧ P.world.parse q = some op ∧ P.compile s = some v
  | .vDone q s cp r => nm q s ∧ r = pureCall P.world q s cp
  | .eSel _ subs todo done => done ++ todo.map (P.parseWith (reset fresh)) = subs.map (P.parseWith (reset fresh))
  | .eGot _ subs i sc todo done =>
    PoolInv sc.st ∧ done ++ (i :: todo).map (P.parseWith (reset fresh)) = subs.map (P.parseWith (reset fresh))

/-- the call in progress -/
def pcCall : PC Op Cue R Input PRes EvIn → Option (Call Input EvIn)
  | .idle => none
  | .pGot i _ => some (.parse i)
  | .vLocked q s cp | .vMiss q s cp | .vGot q s cp _ | .vParsed q s cp _ | .vOp q s cp _ | .vWrite q s cp _ _
  | .vCue q s cp _ _ | .vDone q s cp _ => some (.validate q s cp)
  | .eSel x subs _ _ | .eGot x subs _ _ _ _ => some (.evalSel x subs)

def ThreadOK (P : Params Op Cue R Input PRes EvIn EvOut) (E : List (Ret PRes R EvOut))
    (th : Thread Op Cue R Input PRes EvIn EvOut) : Prop :=
  pcOK P th.pc ∧ th.log ++ ((pcCall th.pc).map (expected P)).toList ++ th.rem.map (expected P) = E

def SharedOK (P : Params Op Cue R Input PRes EvIn EvOut) (sh : Shared Op Cue) : Prop :=
  Inv P.world sh.caches ∧ ∀ s ∈ sh.pool, PoolInv s.st

theorem poolGet_ok (P : Params Op Cue R Input PRes EvIn EvOut) (sh : Shared Op Cue) (k : Nat) (h : SharedOK P sh) :
    PoolInv (poolGet sh k).1.st ∧ SharedOK P (poolGet sh k).2 := by
  unfold poolGet
  cases hk : sh.pool[k]? with
  | none => exact ⟨fresh_inv, h.1, h.2⟩
  | some s =>
    refine ⟨h.2 s (List.mem_of_getElem? hk), h.1, ?_⟩
    intro s' hs'
    exact h.2 s' ((List.eraseIdx_sublist sh.pool k).subset hs')

theorem usedScanner_inv (P : Params Op Cue R Input PRes EvIn EvOut) (sc : PScn) (i : Input) (h : PoolInv sc.st) :
    PoolInv (usedScanner P sc i).st := cycle_inv sc.st h _

theorem poolPut_ok (P : Params Op Cue R Input PRes EvIn EvOut) (sh : Shared Op Cue) (s : PScn) (h : SharedOK P sh)
    (hs : PoolInv s.st) : SharedOK P (poolPut sh s) := by
  refine ⟨h.1, ?_⟩
  intro s' hs'
  simp only [poolPut, List.mem_cons] at hs'
  rcases hs' with rfl | hs'
  · exact hs
  · exact h.2 s' hs'

theorem good_cons {α} (f : String → Option α) (l : List (String × α)) (k : String) (v : α) (hl : Good f l)
    (hv : f k = some v) : Good f ((k, v) :: l) := by
  intro k' v' h'
  rw [find_cons] at h'
  by_cases hk : (k == k') = true
  · rw [if_pos hk] at h'
    have : k = k' := by simpa using hk
    subst this
    cases h'
    exact hv
  · rw [if_neg hk] at h'
    exact hl k' v' h'

theorem pureCall_nm (W : World Op Cue R) (q s cp : String) (h : nm q s) :
    pureCall W q s cp = match W.parse q with
      | none => .parseErr
      | some op => match W.compile s with
        | none => .cueErr
        | some v => .done (W.validate op v cp) := by
  unfold pureCall
  rw [if_neg (by rw [h]; simp)]
  rfl

/-- one step of one goroutine keeps what is known about the shared state and about that goroutine -/
theorem stepT_ok (P : Params Op Cue R Input PRes EvIn EvOut) (E : List (Ret PRes R EvOut)) (t k : Nat)
    (sh sh' : Shared Op Cue) (th th' : Thread Op Cue R Input PRes EvIn EvOut)
    (hs : SharedOK P sh) (ht : ThreadOK P E th) (hstep : stepT P t k sh th = some (sh', th')) :
    SharedOK P sh' ∧ ThreadOK P E th' := by
  obtain ⟨rem, pc, log⟩ := th
  obtain ⟨hpc, hlog⟩ := ht
  simp only at hpc hlog
  unfold stepT at hstep
  cases pc with
  | idle =>
    simp only at hstep
    cases rem with
    | nil => simp at hstep
    | cons c rest =>
      cases c with
      | eval x =>
        simp only [Option.some.injEq, Prod.mk.injEq] at hstep
        obtain ⟨rfl, rfl⟩ := hstep
        refine ⟨hs, trivial, ?_⟩
        simpa [pcCall, expected] using hlog
      | parse i =>
        simp only [Option.some.injEq, Prod.mk.injEq] at hstep
        obtain ⟨rfl, rfl⟩ := hstep
        obtain ⟨g1, g2⟩ := poolGet_ok P sh k hs
        refine ⟨g2, g1, ?_⟩
        simpa [pcCall, expected] using hlog
      | evalSel x subs =>
        simp only [Option.some.injEq, Prod.mk.injEq] at hstep
        obtain ⟨rfl, rfl⟩ := hstep
        refine ⟨hs, ?_, ?_⟩
        · simp [pcOK]
        · simpa [pcCall, expected] using hlog
      | validate q s cp =>
        simp only at hstep
        by_cases hm : (q == "" || s == "") = true
        · rw [if_pos hm] at hstep
          simp only [Option.some.injEq, Prod.mk.injEq] at hstep
          obtain ⟨rfl, rfl⟩ := hstep
          refine ⟨hs, trivial, ?_⟩
          have : pureCall P.world q s cp = .missing := by unfold pureCall; rw [if_pos hm]
          simpa [pcCall, expected, this] using hlog
        · rw [if_neg hm] at hstep
          cases hl : sh.lock with
          | some _ => rw [hl] at hstep; simp at hstep
          | none =>
            rw [hl] at hstep
            simp only [Option.some.injEq, Prod.mk.injEq] at hstep
            obtain ⟨rfl, rfl⟩ := hstep
            refine ⟨hs, ?_, ?_⟩
            · simpa [pcOK, nm] using hm
            · simpa [pcCall, expected] using hlog
  | pGot i sc =>
    simp only [Option.some.injEq, Prod.mk.injEq] at hstep
    obtain ⟨rfl, rfl⟩ := hstep
    refine ⟨poolPut_ok P sh _ hs (usedScanner_inv P sc i hpc), trivial, ?_⟩
    have := reset_canonical sc.st hpc
    simpa [pcCall, expected, this] using hlog
  | vLocked q s cp =>
    simp only at hstep
    cases hf : find? q sh.caches.ops with
    | some op =>
      rw [hf] at hstep
      simp only [Option.some.injEq, Prod.mk.injEq] at hstep
      obtain ⟨rfl, rfl⟩ := hstep
      exact ⟨hs, ⟨hpc, hs.1.1 q op hf⟩, by simpa [pcCall] using hlog⟩
    | none =>
      rw [hf] at hstep
      simp only [Option.some.injEq, Prod.mk.injEq] at hstep
      obtain ⟨rfl, rfl⟩ := hstep
      exact ⟨hs, hpc, by simpa [pcCall] using hlog⟩
  | vMiss q s cp =>
    simp only [Option.some.injEq, Prod.mk.injEq] at hstep
    obtain ⟨rfl, rfl⟩ := hstep
    obtain ⟨g1, g2⟩ := poolGet_ok P sh k hs
    exact ⟨g2, ⟨hpc, g1⟩, by simpa [pcCall] using hlog⟩
  | vGot q s cp sc =>
    simp only [Option.some.injEq, Prod.mk.injEq] at hstep
    obtain ⟨rfl, rfl⟩ := hstep
    refine ⟨poolPut_ok P sh _ hs (usedScanner_inv P sc _ hpc.2), ⟨hpc.1, ?_⟩, by simpa [pcCall] using hlog⟩
    rw [reset_canonical sc.st hpc.2]
  | vParsed q s cp r =>
    simp only at hstep
    obtain ⟨hnm, hr⟩ := hpc
    cases ha : P.asOp r with
    | none =>
      rw [ha] at hstep
      simp only [Option.some.injEq, Prod.mk.injEq] at hstep
      obtain ⟨rfl, rfl⟩ := hstep
      refine ⟨hs, ⟨hnm, ?_⟩, by simpa [pcCall] using hlog⟩
      rw [pureCall_nm _ _ _ _ hnm]
      have : P.world.parse q = none := by simp [Params.world, ← hr, ha]
      rw [this]
    | some op =>
      rw [ha] at hstep
      simp only [Option.some.injEq, Prod.mk.injEq] at hstep
      obtain ⟨rfl, rfl⟩ := hstep
      have hp : P.world.parse q = some op := by simp [Params.world, ← hr, ha]
      exact ⟨⟨⟨good_cons _ _ _ _ hs.1.1 hp, hs.1.2⟩, hs.2⟩, ⟨hnm, hp⟩, by simpa [pcCall] using hlog⟩
  | vOp q s cp op =>
    simp only at hstep
    obtain ⟨hnm, hp⟩ := hpc
    cases hf : find? s sh.caches.cues with
    | some v =>
      rw [hf] at hstep
      simp only [Option.some.injEq, Prod.mk.injEq] at hstep
      obtain ⟨rfl, rfl⟩ := hstep
      exact ⟨hs, ⟨hnm, hp, hs.1.2 s v hf⟩, by simpa [pcCall] using hlog⟩
    | none =>
      rw [hf] at hstep
      cases hc : P.compile s with
      | none =>
        rw [hc] at hstep
        simp only [Option.some.injEq, Prod.mk.injEq] at hstep
        obtain ⟨rfl, rfl⟩ := hstep
        refine ⟨hs, ⟨hnm, ?_⟩, by simpa [pcCall] using hlog⟩
        rw [pureCall_nm _ _ _ _ hnm, hp]
        have : P.world.compile s = none := hc
        simp [this]
      | some v =>
        rw [hc] at hstep
        simp only [Option.some.injEq, Prod.mk.injEq] at hstep
        obtain ⟨rfl, rfl⟩ := hstep
        exact ⟨hs, ⟨hnm, hp, hc⟩, by simpa [pcCall] using hlog⟩
  | vWrite q s cp op v =>
    simp only [Option.some.injEq, Prod.mk.injEq] at hstep
    obtain ⟨rfl, rfl⟩ := hstep
    obtain ⟨hnm, hp, hc⟩ := hpc
    exact ⟨⟨⟨hs.1.1, good_cons _ _ _ _ hs.1.2 hc⟩, hs.2⟩, ⟨hnm, hp, hc⟩, by simpa [pcCall] using hlog⟩
  | vCue q s cp op v =>
    simp only [Option.some.injEq, Prod.mk.injEq] at hstep
    obtain ⟨rfl, rfl⟩ := hstep
    obtain ⟨hnm, hp, hc⟩ := hpc
    refine ⟨⟨hs.1, hs.2⟩, trivial, ?_⟩
    have : pureCall P.world q s cp = .done (P.validate op v cp) := by
      rw [pureCall_nm _ _ _ _ hnm, hp]
      simp [Params.world, hc]
    simpa [pcCall, expected, this] using hlog
  | vDone q s cp r =>
    simp only [Option.some.injEq, Prod.mk.injEq] at hstep
    obtain ⟨rfl, rfl⟩ := hstep
    obtain ⟨hnm, hr⟩ := hpc
    refine ⟨⟨hs.1, hs.2⟩, trivial, ?_⟩
    simpa [pcCall, expected, hr] using hlog
  | eSel x subs todo done =>
    cases todo with
    | nil =>
      simp only [Option.some.injEq, Prod.mk.injEq] at hstep
      obtain ⟨rfl, rfl⟩ := hstep
      refine ⟨hs, trivial, ?_⟩
      have hd : done = subs.map (P.parseWith (reset fresh)) := by simpa [pcOK] using hpc
      simpa [pcCall, expected, hd] using hlog
    | cons i todo =>
      simp only [Option.some.injEq, Prod.mk.injEq] at hstep
      obtain ⟨rfl, rfl⟩ := hstep
      obtain ⟨g1, g2⟩ := poolGet_ok P sh k hs
      exact ⟨g2, ⟨g1, hpc⟩, by simpa [pcCall] using hlog⟩
  | eGot x subs i sc todo done =>
    simp only [Option.some.injEq, Prod.mk.injEq] at hstep
    obtain ⟨rfl, rfl⟩ := hstep
    refine ⟨poolPut_ok P sh _ hs (usedScanner_inv P sc i hpc.1), ?_, by simpa [pcCall] using hlog⟩
    have := hpc.2
    simp only [pcOK, reset_canonical sc.st hpc.1]
    simpa [List.append_assoc] using this

/-! ### mutual exclusion -/

def crit : PC Op Cue R Input PRes EvIn → Bool
  | .idle | .pGot _ _ | .eSel _ _ _ _ | .eGot _ _ _ _ _ _ => false
  | _ => true

/-- how a step moves the mutex: it is taken exactly when the goroutine enters the critical section (and was free), released
    exactly when it leaves, untouched otherwise -/
theorem stepT_lock (P : Params Op Cue R Input PRes EvIn EvOut) (t k : Nat) (sh sh' : Shared Op Cue)
    (th th' : Thread Op Cue R Input PRes EvIn EvOut) (hstep : stepT P t k sh th = some (sh', th')) :
    (crit th.pc = false → crit th'.pc = true → sh.lock = none ∧ sh'.lock = some t) ∧
    (crit th.pc = true → crit th'.pc = true → sh'.lock = sh.lock) ∧
    (crit th.pc = true → crit th'.pc = false → sh'.lock = none) ∧
    (crit th.pc = false → crit th'.pc = false → sh'.lock = sh.lock) := by
  obtain ⟨rem, pc, log⟩ := th
  unfold stepT at hstep
  cases pc with
  | idle =>
    simp only at hstep
    cases rem with
    | nil => simp at hstep
    | cons c rest =>
      cases c with
      | eval x =>
        simp only [Option.some.injEq, Prod.mk.injEq] at hstep
        obtain ⟨rfl, rfl⟩ := hstep
        simp [crit]
      | parse i =>
        simp only [Option.some.injEq, Prod.mk.injEq] at hstep
        obtain ⟨rfl, rfl⟩ := hstep
        simp only [crit, poolGet]
        cases sh.pool[k]? <;> simp
      | evalSel x subs =>
        simp only [Option.some.injEq, Prod.mk.injEq] at hstep
        obtain ⟨rfl, rfl⟩ := hstep
        simp [crit]
      | validate q s cp =>
        simp only at hstep
        by_cases hm : (q == "" || s == "") = true
        · rw [if_pos hm] at hstep
          simp only [Option.some.injEq, Prod.mk.injEq] at hstep
          obtain ⟨rfl, rfl⟩ := hstep
          simp [crit]
        · rw [if_neg hm] at hstep
          cases hl : sh.lock with
          | some _ => rw [hl] at hstep; simp at hstep
          | none =>
            rw [hl] at hstep
            simp only [Option.some.injEq, Prod.mk.injEq] at hstep
            obtain ⟨rfl, rfl⟩ := hstep
            simp [crit]
  | pGot i sc =>
    simp only [Option.some.injEq, Prod.mk.injEq] at hstep
    obtain ⟨rfl, rfl⟩ := hstep
    simp [crit, poolPut]
  | vLocked q s cp =>
    simp only at hstep
    cases hf : find? q sh.caches.ops <;> rw [hf] at hstep <;>
      simp only [Option.some.injEq, Prod.mk.injEq] at hstep <;> obtain ⟨rfl, rfl⟩ := hstep <;> simp [crit]
  | vMiss q s cp =>
    simp only [Option.some.injEq, Prod.mk.injEq] at hstep
    obtain ⟨rfl, rfl⟩ := hstep
    simp only [crit, poolGet]
    cases sh.pool[k]? <;> simp
  | vGot q s cp sc =>
    simp only [Option.some.injEq, Prod.mk.injEq] at hstep
    obtain ⟨rfl, rfl⟩ := hstep
    simp [crit, poolPut]
  | vParsed q s cp r =>
    simp only at hstep
    cases ha : P.asOp r <;> rw [ha] at hstep <;>
      simp only [Option.some.injEq, Prod.mk.injEq] at hstep <;> obtain ⟨rfl, rfl⟩ := hstep <;> simp [crit]
  | vOp q s cp op =>
    simp only at hstep
    cases hf : find? s sh.caches.cues with
    | some v =>
      rw [hf] at hstep
      simp only [Option.some.injEq, Prod.mk.injEq] at hstep
      obtain ⟨rfl, rfl⟩ := hstep
      simp [crit]
    | none =>
      rw [hf] at hstep
      cases hc : P.compile s <;> rw [hc] at hstep <;>
        simp only [Option.some.injEq, Prod.mk.injEq] at hstep <;> obtain ⟨rfl, rfl⟩ := hstep <;> simp [crit]
  | vWrite q s cp op v =>
    simp only [Option.some.injEq, Prod.mk.injEq] at hstep
    obtain ⟨rfl, rfl⟩ := hstep
    simp [crit]
  | vCue q s cp op v =>
    simp only [Option.some.injEq, Prod.mk.injEq] at hstep
    obtain ⟨rfl, rfl⟩ := hstep
    simp [crit]
  | vDone q s cp r =>
    simp only [Option.some.injEq, Prod.mk.injEq] at hstep
    obtain ⟨rfl, rfl⟩ := hstep
    simp [crit]
  | eSel x subs todo done =>
    cases todo with
    | nil =>
      simp only [Option.some.injEq, Prod.mk.injEq] at hstep
      obtain ⟨rfl, rfl⟩ := hstep
      simp [crit]
    | cons i todo =>
      simp only [Option.some.injEq, Prod.mk.injEq] at hstep
      obtain ⟨rfl, rfl⟩ := hstep
      simp only [crit, poolGet]
      cases sh.pool[k]? <;> simp
  | eGot x subs i sc todo done =>
    simp only [Option.some.injEq, Prod.mk.injEq] at hstep
    obtain ⟨rfl, rfl⟩ := hstep
    simp [crit, poolPut]

/-- whoever is inside the critical section holds the mutex -/
def Coupled (σ : Sys Op Cue R Input PRes EvIn EvOut) : Prop := ∀ t, crit (σ.th t).pc = true → σ.sh.lock = some t

theorem coupled_step (P : Params Op Cue R Input PRes EvIn EvOut) (σ : Sys Op Cue R Input PRes EvIn EvOut) (e : Ev)
    (h : Coupled σ) : Coupled (stepSys P σ e) := by
  cases e with
  | gc k => exact h
  | run t k =>
    simp only [stepSys]
    cases hstep : stepT P t k σ.sh (σ.th t) with
    | none => exact h
    | some r =>
      obtain ⟨sh', th'⟩ := r
      obtain ⟨l1, l2, l3, l4⟩ := stepT_lock P t k σ.sh sh' (σ.th t) th' hstep
      intro u hu
      simp only at hu ⊢
      by_cases hut : u = t
      · subst hut
        simp only [↓reduceIte] at hu
        cases hc : crit (σ.th u).pc with
        | false => exact (l1 hc hu).2
        | true => rw [l2 hc hu]; exact h u hc
      · simp only [if_neg hut] at hu
        have hlu := h u hu
        cases hc : crit (σ.th t).pc with
        | true =>
          have := h t hc
          rw [this] at hlu
          exact absurd (Option.some.inj hlu).symm hut
        | false =>
          cases hc' : crit th'.pc with
          | true => have := (l1 hc hc').1; rw [this] at hlu; cases hlu
          | false => rw [l4 hc hc']; exact hlu

/-! ### scanners are exclusive -/

def held : PC Op Cue R Input PRes EvIn → Option Nat
  | .pGot _ sc => some sc.id
  | .vGot _ _ _ sc => some sc.id
  | .eGot _ _ _ sc _ _ => some sc.id
  | _ => none

theorem not_mem_eraseIdx_of_nodup {α β} [DecidableEq β] (f : α → β) : ∀ (l : List α) (k : Nat) (a : α),
    (l.map f).Nodup → l[k]? = some a → f a ∉ (l.eraseIdx k).map f := by
  intro l
  induction l with
  | nil => intro k a _ h; simp at h
  | cons x t ih =>
    intro k a hn h
    rw [List.map_cons, List.nodup_cons] at hn
    cases k with
    | zero =>
      simp only [List.getElem?_cons_zero, Option.some.injEq] at h
      subst h
      simpa using hn.1
    | succ k =>
      simp only [List.getElem?_cons_succ] at h
      simp only [List.eraseIdx_cons_succ, List.map_cons, List.mem_cons, not_or]
      refine ⟨?_, ih k a hn.2 h⟩
      intro heq
      apply hn.1
      rw [← heq]
      exact List.mem_map_of_mem (List.mem_of_getElem? h)

/-- what a step does to the pool and to the scanner the goroutine holds: nothing, a Get, or a Put of the scanner it held -/
theorem stepT_ids (P : Params Op Cue R Input PRes EvIn EvOut) (t k : Nat) (sh sh' : Shared Op Cue)
    (th th' : Thread Op Cue R Input PRes EvIn EvOut) (hstep : stepT P t k sh th = some (sh', th')) :
    (sh'.pool = sh.pool ∧ sh'.nextId = sh.nextId ∧ held th'.pc = held th.pc) ∨
    (held th.pc = none ∧ held th'.pc = some (poolGet sh k).1.id ∧ sh'.pool = (poolGet sh k).2.pool ∧
      sh'.nextId = (poolGet sh k).2.nextId) ∨
    (∃ id st, held th.pc = some id ∧ held th'.pc = none ∧ sh'.pool = ⟨id, st⟩ :: sh.pool ∧ sh'.nextId = sh.nextId) := by
  obtain ⟨rem, pc, log⟩ := th
  unfold stepT at hstep
  cases pc with
  | idle =>
    simp only at hstep
    cases rem with
    | nil => simp at hstep
    | cons c rest =>
      cases c with
      | eval x =>
        simp only [Option.some.injEq, Prod.mk.injEq] at hstep
        obtain ⟨rfl, rfl⟩ := hstep
        left; simp [held]
      | parse i =>
        simp only [Option.some.injEq, Prod.mk.injEq] at hstep
        obtain ⟨rfl, rfl⟩ := hstep
        right; left; simp [held]
      | evalSel x subs =>
        simp only [Option.some.injEq, Prod.mk.injEq] at hstep
        obtain ⟨rfl, rfl⟩ := hstep
        left; simp [held]
      | validate q s cp =>
        simp only at hstep
        by_cases hm : (q == "" || s == "") = true
        · rw [if_pos hm] at hstep
          simp only [Option.some.injEq, Prod.mk.injEq] at hstep
          obtain ⟨rfl, rfl⟩ := hstep
          left; simp [held]
        · rw [if_neg hm] at hstep
          cases hl : sh.lock with
          | some _ => rw [hl] at hstep; simp at hstep
          | none =>
            rw [hl] at hstep
            simp only [Option.some.injEq, Prod.mk.injEq] at hstep
            obtain ⟨rfl, rfl⟩ := hstep
            left; simp [held]
  | pGot i sc =>
    simp only [Option.some.injEq, Prod.mk.injEq] at hstep
    obtain ⟨rfl, rfl⟩ := hstep
    right; right
    exact ⟨sc.id, _, rfl, rfl, rfl, rfl⟩
  | vLocked q s cp =>
    simp only at hstep
    cases hf : find? q sh.caches.ops <;> rw [hf] at hstep <;>
      simp only [Option.some.injEq, Prod.mk.injEq] at hstep <;> obtain ⟨rfl, rfl⟩ := hstep <;> left <;> simp [held]
  | vMiss q s cp =>
    simp only [Option.some.injEq, Prod.mk.injEq] at hstep
    obtain ⟨rfl, rfl⟩ := hstep
    right; left; simp [held]
  | vGot q s cp sc =>
    simp only [Option.some.injEq, Prod.mk.injEq] at hstep
    obtain ⟨rfl, rfl⟩ := hstep
    right; right
    exact ⟨sc.id, _, rfl, rfl, rfl, rfl⟩
  | vParsed q s cp r =>
    simp only at hstep
    cases ha : P.asOp r <;> rw [ha] at hstep <;>
      simp only [Option.some.injEq, Prod.mk.injEq] at hstep <;> obtain ⟨rfl, rfl⟩ := hstep <;> left <;> simp [held]
  | vOp q s cp op =>
    simp only at hstep
    cases hf : find? s sh.caches.cues with
    | some v =>
      rw [hf] at hstep
      simp only [Option.some.injEq, Prod.mk.injEq] at hstep
      obtain ⟨rfl, rfl⟩ := hstep
      left; simp [held]
    | none =>
      rw [hf] at hstep
      cases hc : P.compile s <;> rw [hc] at hstep <;>
        simp only [Option.some.injEq, Prod.mk.injEq] at hstep <;> obtain ⟨rfl, rfl⟩ := hstep <;> left <;> simp [held]
  | vWrite q s cp op v =>
    simp only [Option.some.injEq, Prod.mk.injEq] at hstep
    obtain ⟨rfl, rfl⟩ := hstep
    left; simp [held]
  | vCue q s cp op v =>
    simp only [Option.some.injEq, Prod.mk.injEq] at hstep
    obtain ⟨rfl, rfl⟩ := hstep
    left; simp [held]
  | vDone q s cp r =>
    simp only [Option.some.injEq, Prod.mk.injEq] at hstep
    obtain ⟨rfl, rfl⟩ := hstep
    left; simp [held]
  | eSel x subs todo done =>
    cases todo with
    | nil =>
      simp only [Option.some.injEq, Prod.mk.injEq] at hstep
      obtain ⟨rfl, rfl⟩ := hstep
      left; simp [held]
    | cons i todo =>
      simp only [Option.some.injEq, Prod.mk.injEq] at hstep
      obtain ⟨rfl, rfl⟩ := hstep
      right; left; simp [held]
  | eGot x subs i sc todo done =>
    simp only [Option.some.injEq, Prod.mk.injEq] at hstep
    obtain ⟨rfl, rfl⟩ := hstep
    right; right
    exact ⟨sc.id, _, rfl, rfl, rfl, rfl⟩

structure IdsOK (σ : Sys Op Cue R Input PRes EvIn EvOut) : Prop where
  nodup : (σ.sh.pool.map PScn.id).Nodup
  poolLt : ∀ i ∈ σ.sh.pool.map PScn.id, i < σ.sh.nextId
  heldLt : ∀ t i, held (σ.th t).pc = some i → i < σ.sh.nextId
  heldOut : ∀ t i, held (σ.th t).pc = some i → i ∉ σ.sh.pool.map PScn.id
  heldOne : ∀ t u i, held (σ.th t).pc = some i → held (σ.th u).pc = some i → t = u

theorem ids_step (P : Params Op Cue R Input PRes EvIn EvOut) (σ : Sys Op Cue R Input PRes EvIn EvOut) (e : Ev)
    (h : IdsOK σ) : IdsOK (stepSys P σ e) := by
  cases e with
  | gc k =>
    have hsub : ((σ.sh.pool.eraseIdx k).map PScn.id).Sublist (σ.sh.pool.map PScn.id) :=
      (List.eraseIdx_sublist _ _).map _
    exact ⟨h.nodup.sublist hsub, fun i hi => h.poolLt i (hsub.subset hi), h.heldLt,
      fun t i ht hi => h.heldOut t i ht (hsub.subset hi), h.heldOne⟩
  | run t k =>
    simp only [stepSys]
    cases hstep : stepT P t k σ.sh (σ.th t) with
    | none => exact h
    | some r =>
      obtain ⟨sh', th'⟩ := r
      have hth : ∀ u, u ≠ t → (if u = t then th' else σ.th u) = σ.th u := fun u hu => if_neg hu
      rcases stepT_ids P t k σ.sh sh' (σ.th t) th' hstep with ⟨e1, e2, e3⟩ | ⟨g1, g2, g3, g4⟩ | ⟨i0, st, p1, p2, p3, p4⟩
      · -- nothing moves
        have hheld : ∀ u, held (if u = t then th' else σ.th u).pc = held (σ.th u).pc := by
          intro u; by_cases hu : u = t
          · subst hu; simp [e3]
          · simp [hu]
        refine ⟨?_, ?_, ?_, ?_, ?_⟩ <;> simp only [e1, e2, hheld]
        · exact h.nodup
        · exact h.poolLt
        · exact h.heldLt
        · exact h.heldOut
        · exact h.heldOne
      · -- Get
        have hsub : ((poolGet σ.sh k).2.pool.map PScn.id).Sublist (σ.sh.pool.map PScn.id) := by
          unfold poolGet; cases σ.sh.pool[k]? with
          | none => exact List.Sublist.refl _
          | some s => exact (List.eraseIdx_sublist _ _).map _
        have hmono : σ.sh.nextId ≤ (poolGet σ.sh k).2.nextId := by
          unfold poolGet; cases σ.sh.pool[k]? <;> simp
        have hnew_lt : (poolGet σ.sh k).1.id < (poolGet σ.sh k).2.nextId := by
          unfold poolGet; cases hk : σ.sh.pool[k]? with
          | none => simp
          | some s => exact h.poolLt _ (List.mem_map_of_mem (List.mem_of_getElem? hk))
        have hnew_out : (poolGet σ.sh k).1.id ∉ (poolGet σ.sh k).2.pool.map PScn.id := by
          unfold poolGet; cases hk : σ.sh.pool[k]? with
          | none => intro hmem; exact Nat.lt_irrefl _ (h.poolLt _ hmem)
          | some s => exact not_mem_eraseIdx_of_nodup PScn.id _ k s h.nodup hk
        have hnew_other : ∀ u, u ≠ t → held (σ.th u).pc ≠ some (poolGet σ.sh k).1.id := by
          intro u _ hu
          have hlt := h.heldLt u _ hu
          have hout := h.heldOut u _ hu
          revert hlt hout
          unfold poolGet; cases hk : σ.sh.pool[k]? with
          | none => intro hlt _; exact Nat.lt_irrefl _ hlt
          | some s => intro _ hout; exact hout (List.mem_map_of_mem (List.mem_of_getElem? hk))
        refine ⟨?_, ?_, ?_, ?_, ?_⟩ <;> simp only [g3, g4]
        · exact h.nodup.sublist hsub
        · intro i hi; exact Nat.lt_of_lt_of_le (h.poolLt i (hsub.subset hi)) hmono
        · intro u i hu
          by_cases hut : u = t
          · subst hut; simp only [↓reduceIte, g2, Option.some.injEq] at hu; subst hu; exact hnew_lt
          · simp only [if_neg hut] at hu; exact Nat.lt_of_lt_of_le (h.heldLt u i hu) hmono
        · intro u i hu
          by_cases hut : u = t
          · subst hut; simp only [↓reduceIte, g2, Option.some.injEq] at hu; subst hu; exact hnew_out
          · simp only [if_neg hut] at hu; exact fun hi => h.heldOut u i hu (hsub.subset hi)
        · intro u w i hu hw
          by_cases hut : u = t <;> by_cases hwt : w = t
          · rw [hut, hwt]
          · subst hut; simp only [↓reduceIte, g2, Option.some.injEq] at hu
            simp only [if_neg hwt] at hw; subst hu; exact absurd hw (hnew_other w hwt)
          · subst hwt; simp only [↓reduceIte, g2, Option.some.injEq] at hw
            simp only [if_neg hut] at hu; subst hw; exact absurd hu (hnew_other u hut)
          · simp only [if_neg hut] at hu; simp only [if_neg hwt] at hw; exact h.heldOne u w i hu hw
      · -- Put
        have hi0out := h.heldOut t i0 p1
        have hi0lt := h.heldLt t i0 p1
        refine ⟨?_, ?_, ?_, ?_, ?_⟩ <;> simp only [p3, p4, List.map_cons]
        · exact List.nodup_cons.mpr ⟨hi0out, h.nodup⟩
        · intro i hi
          rcases List.mem_cons.mp hi with rfl | hi
          · exact hi0lt
          · exact h.poolLt i hi
        · intro u i hu
          by_cases hut : u = t
          · subst hut; simp [p2] at hu
          · simp only [if_neg hut] at hu; exact h.heldLt u i hu
        · intro u i hu
          by_cases hut : u = t
          · subst hut; simp [p2] at hu
          · simp only [if_neg hut] at hu
            intro hmem
            rcases List.mem_cons.mp hmem with rfl | hmem
            · exact hut (h.heldOne u t i hu p1)
            · exact h.heldOut u i hu hmem
        · intro u w i hu hw
          by_cases hut : u = t
          · subst hut; simp [p2] at hu
          · by_cases hwt : w = t
            · subst hwt; simp [p2] at hw
            · simp only [if_neg hut] at hu; simp only [if_neg hwt] at hw; exact h.heldOne u w i hu hw

/-! ### every reachable state -/

structure Reach (P : Params Op Cue R Input PRes EvIn EvOut) (progs : Nat → List (Call Input EvIn))
    (σ : Sys Op Cue R Input PRes EvIn EvOut) : Prop where
  shared : SharedOK P σ.sh
  threads : ∀ t, ThreadOK P ((progs t).map (expected P)) (σ.th t)
  coupled : Coupled σ
  ids : IdsOK σ

theorem reach_init (P : Params Op Cue R Input PRes EvIn EvOut) (progs : Nat → List (Call Input EvIn)) :
    Reach P progs (init progs) := by
  refine ⟨⟨inv_empty _, by simp [init]⟩, ?_, ?_, ?_⟩
  · intro t; exact ⟨trivial, by simp [init, pcCall]⟩
  · intro t h; simp [init, crit] at h
  · refine ⟨by simp [init], by simp [init], ?_, ?_, ?_⟩ <;> intro t <;> simp [init, held]

theorem reach_step (P : Params Op Cue R Input PRes EvIn EvOut) (progs : Nat → List (Call Input EvIn))
    (σ : Sys Op Cue R Input PRes EvIn EvOut) (e : Ev) (h : Reach P progs σ) : Reach P progs (stepSys P σ e) := by
  refine ⟨?_, ?_, coupled_step P σ e h.coupled, ids_step P σ e h.ids⟩
  · cases e with
    | gc k =>
      exact ⟨h.shared.1, fun s hs => h.shared.2 s ((List.eraseIdx_sublist _ _).subset hs)⟩
    | run t k =>
      simp only [stepSys]
      cases hstep : stepT P t k σ.sh (σ.th t) with
      | none => exact h.shared
      | some r => exact (stepT_ok P _ t k σ.sh r.1 (σ.th t) r.2 h.shared (h.threads t) hstep).1
  · intro u
    cases e with
    | gc k => exact h.threads u
    | run t k =>
      simp only [stepSys]
      cases hstep : stepT P t k σ.sh (σ.th t) with
      | none => exact h.threads u
      | some r =>
        simp only
        by_cases hut : u = t
        · subst hut
          rw [if_pos rfl]
          exact (stepT_ok P _ u k σ.sh r.1 (σ.th u) r.2 h.shared (h.threads u) hstep).2
        · rw [if_neg hut]; exact h.threads u

theorem reach_run (P : Params Op Cue R Input PRes EvIn EvOut) (progs : Nat → List (Call Input EvIn)) :
    ∀ (evs : List Ev) (σ : Sys Op Cue R Input PRes EvIn EvOut), Reach P progs σ → Reach P progs (runSys P σ evs) := by
  intro evs
  induction evs with
  | nil => intro σ h; exact h
  | cons e t ih => intro σ h; exact ih _ (reach_step P progs σ e h)

/-- C12: under EVERY schedule, what a goroutine has been answered so far is, call by call, what its calls return when each is
    run alone in a fresh process; a goroutine that has finished has been answered exactly that for all its calls. -/
theorem calls_return_what_they_return_alone (P : Params Op Cue R Input PRes EvIn EvOut)
    (progs : Nat → List (Call Input EvIn)) (evs : List Ev) (t : Nat) :
    let σ := runSys P (init progs) evs
    (∃ rest, (σ.th t).log ++ rest = (progs t).map (expected P)) ∧
    ((σ.th t).pc = .idle → (σ.th t).rem = [] → (σ.th t).log = (progs t).map (expected P)) := by
  intro σ
  have h := (reach_run P progs evs _ (reach_init P progs)).threads t
  refine ⟨⟨_, by rw [← List.append_assoc]; exact h.2⟩, ?_⟩
  intro hpc hrem
  have := h.2
  rw [hpc, hrem] at this
  simpa [pcCall] using this

/-- C12: two goroutines are never inside CueValidate's critical section together, and whoever is inside holds the mutex. -/
theorem mutual_exclusion (P : Params Op Cue R Input PRes EvIn EvOut) (progs : Nat → List (Call Input EvIn))
    (evs : List Ev) (t u : Nat) :
    let σ := runSys P (init progs) evs
    (crit (σ.th t).pc = true → σ.sh.lock = some t) ∧
    (crit (σ.th t).pc = true → crit (σ.th u).pc = true → t = u) := by
  intro σ
  have h := (reach_run P progs evs _ (reach_init P progs)).coupled
  refine ⟨h t, fun ht hu => ?_⟩
  have a := h t ht
  have b := h u hu
  rw [a] at b
  exact Option.some.inj b

/-- C12: a scanner is never held by two goroutines, and a held scanner is not idle in the pool. -/
theorem scanners_exclusive (P : Params Op Cue R Input PRes EvIn EvOut) (progs : Nat → List (Call Input EvIn))
    (evs : List Ev) (t u i : Nat) :
    let σ := runSys P (init progs) evs
    (held (σ.th t).pc = some i → held (σ.th u).pc = some i → t = u) ∧
    (held (σ.th t).pc = some i → i ∉ σ.sh.pool.map PScn.id) ∧ (σ.sh.pool.map PScn.id).Nodup := by
  intro σ
  have h := (reach_run P progs evs _ (reach_init P progs)).ids
  exact ⟨h.heldOne t u i, h.heldOut t i, h.nodup⟩

/-- C16 ∘ C12: the caches stay right under every schedule -/
theorem caches_good (P : Params Op Cue R Input PRes EvIn EvOut) (progs : Nat → List (Call Input EvIn)) (evs : List Ev) :
    Inv P.world (runSys P (init progs) evs).sh.caches :=
  (reach_run P progs evs _ (reach_init P progs)).shared.1

/-! non-vacuity: two goroutines validate the same query against the same schema and then go their own ways; the second one
    is blocked in Lock while the first is inside, the pool hands the first one's scanner on, and both logs are complete -/
def demoP : Params Nat String (Nat × String × String) String (Option Nat) Nat Nat :=
  { parseWith := fun sc i => if sc.modeOk && i != "bad" then some i.length else none
    faultOf := fun _ => false, qin := id, asOp := id
    compile := fun s => if s == "nope" then none else some s
    validate := fun n s cp => (n, s, cp), evalF := fun x => x + 1
    evalS := fun x rs => x + (rs.filter Option.isSome).length }
def demoProgs : Nat → List (Call String Nat)
  | 0 => [.validate "$.a" "x: int" "", .parse "$.b.c", .evalSel 1 ["$.x", "bad", "$.yy"]]
  | 1 => [.validate "$.a" "x: int" "s1", .validate "bad" "x: int" "", .eval 41, .validate "$.a" "nope" ""]
  | _ => []
def demoSched : List Ev :=
  [.run 0 0, .run 1 0, .run 0 0, .run 1 0, .run 0 0, .run 0 0, .run 1 0, .run 0 0, .run 0 0, .run 0 0, .run 0 0, .run 0 0,
   .run 0 0, .gc 5] ++ List.replicate 30 (.run 1 0) ++ List.replicate 9 (.run 0 0)
set_option maxRecDepth 100000 in
example :
    let σ := runSys demoP (init demoProgs) demoSched
    (σ.th 0).log = [.validated (.done (3, "x: int", "")), .parsed (some 5), .evaluated 3] ∧
    (σ.th 1).log = [.validated (.done (3, "x: int", "s1")), .validated .parseErr, .evaluated 42, .validated .cueErr] ∧
    σ.sh.pool.map PScn.id = [0] ∧ σ.sh.lock = none := by decide

#print axioms calls_return_what_they_return_alone
#print axioms mutual_exclusion
#print axioms scanners_exclusive
#print axioms caches_good
end Mp.ConcSys
