import Mp.CacheProofs
/-! C16 — why the caches must be keyed by the texts themselves. `cache_transparent` is about a memo keyed by its argument.
    Here the memo is keyed by `key arg` for an arbitrary `key` (a hash, a prefix, a length): it stays transparent when `key` is
    injective on the arguments that matter, and as soon as two arguments with different values share a key there is a history
    of two calls after which the second gets the first one's value. This is the obligation that the regenerated fact
    `cache_skeleton` ("read and written under the key that IS the argument") discharges, and the reason why a broken fact
    makes the check search for two colliding texts. -/
namespace Mp

/-- a memo keyed by `key k` instead of `k` -/
def memoK {α} (key : String → String) (f : String → Option α) (k : String) (l : List (String × α)) : Option α × List (String × α) :=
  match find? (key k) l with
  | some v => (some v, l)
  | none => match f k with
    | none => (none, l)
    | some v => (some v, (key k, v) :: l)

/-- with an injective key function the keyed memo is the plain memo on renamed keys: still the function of its argument -/
theorem memoK_injective {α} (key : String → String) (hinj : ∀ a b, key a = key b → a = b) (f : String → Option α) (k : String)
    (l : List (String × α)) (h : ∀ a v, find? (key a) l = some v → f a = some v) :
    (memoK key f k l).1 = f k ∧ (∀ a v, find? (key a) (memoK key f k l).2 = some v → f a = some v) := by
  unfold memoK
  cases hf : find? (key k) l with
  | some v => exact ⟨(h k v hf).symm, h⟩
  | none =>
    cases hk : f k with
    | none => exact ⟨rfl, h⟩
    | some v =>
      refine ⟨rfl, ?_⟩
      intro a v' ha
      rw [find_cons] at ha
      by_cases e : (key k == key a) = true
      · rw [if_pos e] at ha
        have : k = a := hinj _ _ (beq_iff_eq.mp e)
        subst this
        cases ha
        exact hk
      · rw [if_neg e] at ha
        exact h a v' ha

/-- two arguments that share a key and have different values: after a call with the first, a call with the second returns the
    first one's value - not what a fresh process returns -/
theorem memoK_collision_observable {α} (key : String → String) (f : String → Option α) (a b : String) (va vb : α)
    (hkey : key a = key b) (ha : f a = some va) (hb : f b = some vb) (hne : va ≠ vb) :
    (memoK key f b (memoK key f a []).2).1 ≠ f b := by
  have h1 : (memoK key f a []).2 = [(key a, va)] := by simp [memoK, find?, ha]
  rw [h1]
  have h2 : find? (key b) [(key a, va)] = some va := by simp [find?, hkey]
  simp only [memoK, h2, hb]
  intro h
  exact hne (Option.some.inj h)

/-- non-vacuity: keyed by the length of the text, "ab" gets the value of "xy" -/
example : (memoK (fun s => toString s.length) (fun s => some s) "ab" (memoK (fun s => toString s.length) (fun s => some s) "xy" []).2).1 = some "xy" := by decide

#print axioms memoK_injective
#print axioms memoK_collision_observable
end Mp
