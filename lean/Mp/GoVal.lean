import Mp.DecOps
/-! Prototype: the Go values mpath's evaluator can be handed, as reflection sees them. Core-only. -/
namespace Mp

inductive NumKind | int | int8 | int16 | int32 | int64 | uint | uint8 | uint16 | uint32 | uint64
deriving Repr, DecidableEq, Inhabited

inductive KeyKind | str | named | iface
deriving Repr, DecidableEq, Inhabited

/-- dynamic Go values (what an `any` can hold). Containers remember whether their static element type is an
    interface (`ei`), because reflection then yields Kind Interface for the elements. Maps and structs keep
    names and values in parallel lists. -/
inductive GoVal where
  | nil
  | bool (named : Bool) (b : Bool)
  | str (named : Bool) (s : Bytes)
  | int (k : NumKind) (named : Bool) (v : Int)
  | f64 (named : Bool) (f : PF)
  | dec (d : Dec)
  | ptr (isNil : Bool) (v : GoVal)
  | slice (ei : Bool) (isNil : Bool) (xs : List GoVal)
  | array (ei : Bool) (xs : List GoVal)
  | map (kk : KeyKind) (isNil : Bool) (keys : List Bytes) (vals : List GoVal)
  | struct (names : List (Bytes × Bool)) (vals : List GoVal)
  | func
  | chan
  | errVal
deriving Inhabited

inductive Kind | invalid | bool | int | uint | float | string | struct | ptr | slice | array | map | func | chan | iface
deriving Repr, DecidableEq

/-- a reflect.Value: invalid, a concrete value, or an interface-typed slot holding a (possibly nil) value -/
inductive RV where
  | invalid
  | val (v : GoVal)
  | iface (v : GoVal)
deriving Inhabited

def GoVal.isUnsigned : NumKind → Bool
  | .uint | .uint8 | .uint16 | .uint32 | .uint64 => true
  | _ => false

def GoVal.kind : GoVal → Kind
  | .nil => .invalid
  | .bool .. => .bool
  | .str .. => .string
  | .int k _ _ => if GoVal.isUnsigned k then .uint else .int
  | .f64 .. => .float
  | .dec _ => .struct
  | .ptr .. => .ptr
  | .slice .. => .slice
  | .array .. => .array
  | .map .. => .map
  | .struct .. => .struct
  | .func => .func
  | .chan => .chan
  | .errVal => .ptr

/-- reflect.ValueOf -/
def RV.of (v : GoVal) : RV := match v with | .nil => .invalid | _ => .val v

def RV.kind : RV → Kind
  | .invalid => .invalid
  | .val v => v.kind
  | .iface _ => .iface

/-- Value.Interface() -/
def RV.toAny : RV → GoVal
  | .invalid => .nil
  | .val v => v
  | .iface v => v

/-- Value.Elem() for Pointer / Interface kinds (other kinds: unchanged, the Go code guards) -/
def RV.elem : RV → RV
  | .iface v => RV.of v
  | .val (.ptr isNil v) => if isNil then .invalid else .val v
  | r => r

def RV.derefOnce (r : RV) : RV := if r.kind == .ptr || r.kind == .iface then r.elem else r

/-- what a chain of non-nil pointers ends in -/
def GoVal.strip : GoVal → GoVal
  | .ptr false v => v.strip
  | v => v

/-- helpers.go indirect: follow pointers and interfaces until another kind or a nil is reached -/
def RV.derefAll : RV → RV
  | .invalid => .invalid
  | .iface .nil => .iface .nil
  | .iface v => RV.of v.strip
  | .val v => RV.of v.strip

def f64IsZero : PF → Bool
  | .fin _ m _ => m == 0
  | _ => false

/-- helpers.go isEmptyValue -/
def isEmptyValue : RV → Bool
  | .invalid => false
  | .iface v => match v with | .nil => true | _ => false
  | .val v => match v with
    | .array _ xs => xs.isEmpty
    | .map _ _ ks _ => ks.isEmpty
    | .slice _ _ xs => xs.isEmpty
    | .str _ s => s.isEmpty
    | .bool _ b => !b
    | .int _ _ n => n == 0
    | .f64 _ f => f64IsZero f
    | .ptr isNil _ => isNil
    | _ => false

/-- v.Index(i) -/
def RV.elems : RV → List RV
  | .val (.slice ei _ xs) => xs.map (fun x => if ei then .iface x else .val x)
  | .val (.array ei xs) => xs.map (fun x => if ei then .iface x else .val x)
  | _ => []

/-- funcs.go isNil -/
def isNilVal (v : GoVal) : Bool :=
  match v with
  | .nil => true
  | .ptr isNil _ => isNil
  | .slice _ isNil _ => isNil
  | .map _ isNil _ _ => isNil
  | _ => false

end Mp
