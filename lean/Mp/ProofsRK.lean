import Mp.ProofsP
/-! Prototype: C14 (soundness half) — a function whose descriptor says it returns Boolean / Number / String returns a
    value of that kind or an error, on EVERY receiver and EVERY argument list. Core-only. -/
namespace Mp

def Out.isBool : Out → Bool | .ok (.bool false _) => true | .ok _ => false | _ => true
def Out.isDec : Out → Bool | .ok (.dec _) => true | .ok _ => false | _ => true
def Out.isStr : Out → Bool | .ok (.str false _) => true | .ok _ => false | _ => true

@[simp] theorem isBool_okBool (b) : (okBool b).isBool = true := rfl
@[simp] theorem isDec_okDec (d) : (okDec d).isDec = true := rfl
@[simp] theorem isStr_okStr (s) : (okStr s).isStr = true := rfl

def returnsBoolean : List String := ["Equal","NotEqual","Less","LessOrEqual","Greater","GreaterOrEqual","Invert","Not","Contains","NotContains",
  "Prefix","NotPrefix","Suffix","NotSuffix","Any","AnyOf","IsNull","IsNotNull","IsEmpty","IsNotEmpty","IsNullOrEmpty","IsNotNullOrEmpty"]
def returnsNumber : List String := ["Count","Sum","Average","Minimum","Maximum","Add","Subtract","Multiply","Divide","Modulo"]
def returnsString : List String := ["TrimRight","TrimLeft","Right","Left","ReplaceAll"]

theorem decimalSlice_isDec (ps v f) : (decimalSlice ps v f).isDec = true := by
  unfold decimalSlice
  simp only []
  split <;> simp [Out.isDec, okDec]

theorem stringPart_isStr (ps v f) : (stringPart ps v f).isStr = true := by
  unfold stringPart
  (repeat' split) <;> simp [Out.isStr, okStr]

set_option maxHeartbeats 1600000 in
theorem returns_boolean (nm : String) (hn : nm ∈ returnsBoolean) (ps : List Prm) (v : GoVal) (o : Out)
    (h : pureFunc nm ps v = some o) : o.isBool = true := by
  simp only [returnsBoolean, List.mem_cons, List.mem_nil_iff, or_false] at hn
  rcases hn with rfl | rfl | rfl | rfl | rfl | rfl | rfl | rfl | rfl | rfl | rfl | rfl | rfl | rfl | rfl | rfl | rfl | rfl | rfl | rfl | rfl | rfl
  all_goals (
    unfold pureFunc at h
    simp only [Option.some.injEq] at h
    subst h
    (repeat' split) <;> simp [Out.isBool, okBool])

set_option maxHeartbeats 1600000 in
theorem returns_number (nm : String) (hn : nm ∈ returnsNumber) (ps : List Prm) (v : GoVal) (o : Out)
    (h : pureFunc nm ps v = some o) : o.isDec = true := by
  simp only [returnsNumber, List.mem_cons, List.mem_nil_iff, or_false] at hn
  rcases hn with rfl | rfl | rfl | rfl | rfl | rfl | rfl | rfl | rfl | rfl
  all_goals (
    unfold pureFunc at h
    simp only [Option.some.injEq] at h
    subst h
    first
      | exact decimalSlice_isDec _ _ _
      | ((repeat' split) <;> simp [Out.isDec, okDec]))

set_option maxHeartbeats 1600000 in
theorem returns_string (nm : String) (hn : nm ∈ returnsString) (ps : List Prm) (v : GoVal) (o : Out)
    (h : pureFunc nm ps v = some o) : o.isStr = true := by
  simp only [returnsString, List.mem_cons, List.mem_nil_iff, or_false] at hn
  rcases hn with rfl | rfl | rfl | rfl | rfl
  all_goals (
    unfold pureFunc at h
    simp only [Option.some.injEq] at h
    subst h
    first
      | exact stringPart_isStr _ _ _
      | ((repeat' split) <;> simp [Out.isStr, okStr]))

#print axioms returns_boolean
#print axioms returns_number
#print axioms returns_string
end Mp
