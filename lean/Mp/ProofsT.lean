import Mp.ProofsS
import Mp.ProofsP
/-! Prototype: C07 on the structural evaluator — no evaluation panics, for every query tree and every data value. -/
namespace Mp

theorem identDo_np (name : Bytes) (cur : GoVal) : (identDo name cur).np = true := by
  unfold identDo
  split
  · split <;> rfl
  · unfold valuesByName
    simp only []
    (repeat' split) <;> rfl

theorem filterList_np (f : GoVal → Out) (hf : ∀ x, (f x).np = true ∧ (f x).isBoolOrNotOk) :
    ∀ xs acc, (filterList f xs acc).np = true := by
  intro xs
  induction xs with
  | nil => intro acc; rfl
  | cons x xs ih =>
    intro acc
    unfold filterList
    have h1 := (hf x).1
    have h2 := (hf x).2
    generalize f x = r at h1 h2
    cases r with
    | ok v =>
      cases v with
      | bool n b => exact ih _
      | _ => simp [Out.isBoolOrNotOk] at h2
    | panic => simp [Out.np] at h1
    | _ => rfl

theorem selectList_np (f : GoVal → Out) (hf : ∀ x, (f x).np = true) :
    ∀ xs acc, (selectList f xs acc).np = true := by
  intro xs
  induction xs with
  | nil => intro acc; rfl
  | cons x xs ih =>
    intro acc
    unfold selectList
    have h1 := hf x
    generalize f x = r at h1
    cases r with
    | ok v => simp only []; split <;> exact ih _
    | panic => simp [Out.np] at h1
    | _ => rfl

theorem selectOn_np (recv : GoVal) (f : GoVal → Out) (hf : ∀ x, (f x).np = true) : (selectOn recv f).np = true := by
  unfold selectOn
  split <;> first | exact selectList_np f hf _ _ | rfl

def SumNp : Sum Out (List Prm) → Prop
  | .inl o => o.np = true
  | .inr _ => True

theorem spreadOut_np (v : GoVal) : SumNp (spreadOut v) := by
  unfold spreadOut
  split
  · simp [SumNp, Out.np]
  · split <;> simp [SumNp, Out.np]

theorem np_of_bool (o : Out) (h : o.isBoolOrNotOk) (hp : o.np = true) : o.np = true ∧ o.isBoolOrNotOk := ⟨hp, h⟩

mutual
theorem sPath_np (p : EPath) (cur orig : GoVal) : (sPath p cur orig).np = true := by
  cases p with
  | mk root isFilter ops =>
    unfold sPath
    (repeat' split) <;> first | rfl | exact sParts_np ops _ _ _ _
termination_by structural p

theorem sParts_np (ops : List EPart) (data orig : GoVal) (priorNil : Bool) (prev : Option Bool) :
    (sParts ops data orig priorNil prev).np = true := by
  cases ops with
  | nil => rfl
  | cons op rest =>
    unfold sParts
    have h := sPart_np op data orig
    generalize sPart op data orig = r at h
    cases r with
    | ok v => simp only []; (repeat' split) <;> first | rfl | exact sParts_np rest _ _ _ _
    | knf => simp only []; (repeat' split) <;> first | rfl | exact sParts_np rest _ _ _ _
    | panic => simp [Out.np] at h
    | _ => simp only []; (repeat' split) <;> rfl
termination_by structural ops

theorem sPart_np (op : EPart) (cur orig : GoVal) : (sPart op cur orig).np = true := by
  cases op with
  | ident name prop => unfold sPart; exact identDo_np name cur
  | filter lo =>
    unfold sPart
    split
    · rfl
    · rename_i obj _
      have h' := sLogic_np lo obj orig
      generalize sLogic lo obj orig = r at h'
      cases r with
      | ok v => (repeat' split) <;> rfl
      | panic => simp [Out.np] at h'
      | _ => (repeat' split) <;> rfl
    · split
      · exact filterList_np _ (fun x => ⟨sLogic_np lo x orig, sLogic_bool lo x orig⟩) _ _
      · rfl
  | func name params sel =>
    unfold sPart
    have hp := sParams_np params cur orig
    generalize sParams params cur orig = r at hp
    cases r with
    | inl o => simp only []; split <;> first | rfl | exact hp
    | inr ps =>
      simp only []
      (repeat' split) <;> first
        | rfl
        | (rename_i o ho; exact pureFunc_np _ _ _ _ ho)
        | exact sSel_np sel _
termination_by structural op

theorem sSel_np (sel : ESel) (recv : GoVal) : (sSel sel recv).np = true := by
  cases sel with
  | path p => unfold sSel; exact selectOn_np _ _ (fun x => sPath_np p x x)
  | logic l => unfold sSel; exact selectOn_np _ _ (fun x => sLogic_np l x x)
  | bad => rfl
  | dyn => rfl
  | none => rfl
termination_by structural sel

theorem sParams_np (ps : List EParam) (cur orig : GoVal) : SumNp (sParams ps cur orig) := by
  cases ps with
  | nil => unfold sParams; trivial
  | cons p rest =>
    unfold sParams
    have h1 := sParam_np p cur orig
    generalize sParam p cur orig = r1 at h1
    cases r1 with
    | inl o => exact h1
    | inr l =>
      have h2 := sParams_np rest cur orig
      generalize sParams rest cur orig = r2 at h2
      cases r2 with
      | inl o => exact h2
      | inr ls => trivial
termination_by structural ps

theorem sParam_np (p : EParam) (cur orig : GoVal) : SumNp (sParam p cur orig) := by
  cases p with
  | num d => unfold sParam; trivial
  | str s => unfold sParam; trivial
  | bool b => unfold sParam; trivial
  | path pp =>
    unfold sParam
    have h := sPath_np pp cur orig
    generalize sPath pp cur orig = r at h
    cases r with
    | ok v => simp only []; exact spreadOut_np v
    | panic => simp [Out.np] at h
    | _ => simp [SumNp, Out.np]
  | logic l =>
    unfold sParam
    have h := sLogic_np l cur orig
    generalize sLogic l cur orig = r at h
    cases r with
    | ok v => simp only []; exact spreadOut_np v
    | panic => simp [Out.np] at h
    | _ => simp [SumNp, Out.np]
termination_by structural p

theorem sLogic_np (l : ELogic) (cur orig : GoVal) : (sLogic l cur orig).np = true := by
  cases l with
  | mk ty ops => unfold sLogic; exact sLParts_np ty ops cur orig
termination_by structural l

theorem sLParts_np (ty : Bytes) (ops : List ELPart) (cur orig : GoVal) : (sLParts ty ops cur orig).np = true := by
  cases ops with
  | nil => unfold sLParts; (repeat' split) <;> rfl
  | cons op rest =>
    unfold sLParts
    have h := sLPart_np op cur orig
    generalize sLPart op cur orig = r at h
    cases r with
    | ok v =>
      simp only []
      split
      · split
        · rfl
        · split
          · rfl
          · exact sLParts_np ty rest cur orig
      · rfl
    | panic => simp [Out.np] at h
    | _ => rfl
termination_by structural ops

theorem sLPart_np (op : ELPart) (cur orig : GoVal) : (sLPart op cur orig).np = true := by
  cases op with
  | path p => unfold sLPart; exact sPath_np p cur orig
  | logic l => unfold sLPart; exact sLogic_np l cur orig
termination_by structural op
end

/-- C07 (model level): evaluation of any elaborated query on any Go value never panics. -/
theorem eval_never_panics (p : EPath) (d : GoVal) : sPath p d d ≠ .panic := by
  intro h; have := sPath_np p d d; rw [h] at this; exact absurd this (by decide)

#print axioms eval_never_panics
end Mp
