import Mp.EvalS
/-! C19 — a `?` mark means something only where the marked key is missing or null: on a key that EXISTS and holds a value that is
    not null the mark does nothing, wherever the key stands in the path and whatever follows it (further keys, marked or not, filters,
    calls). Whether a null further along may be stepped into is a matter of the key that produced it, not of an earlier key that
    happens to be marked.

    `runPre` evaluates a prefix of the operations of a path the way `sParts` does and hands back where evaluation stands (value,
    "a null was met" flag, mark of the last operation) or the outcome it stopped with; `sParts_append` splits a path at any point;
    `mark_irrelevant_on_present_key` is the statement. Core-only. -/
namespace Mp

/-- the state `sParts` is in after the operations `pre`, when more operations follow -/
def runPre (pre : List EPart) (data orig : GoVal) (priorNil : Bool) (prev : Option Bool) : Sum Out (GoVal × Bool × Option Bool) :=
  match pre with
  | [] => .inr (data, priorNil, prev)
  | op :: rest =>
    let isFunc := match op with | .func .. => true | _ => false
    let prop := match op with | .ident _ p => p | _ => false
    if (prev.isSome && priorNil) && !(prev.getD false) && !isFunc then .inl .knf else
    match sPart op data orig with
    | .ok v => runPre rest v orig (priorNil || isNilVal v) (some prop)
    | .knf => if prop then runPre rest .nil orig true (some prop) else .inl .knf
    | o => .inl o

theorem append_ne_nil_of_right {α} (a b : List α) (h : b ≠ []) : a ++ b ≠ [] := by
  cases a with
  | nil => simpa using h
  | cons x xs => simp

/-- a path split at any point: the operations in front decide the state, the rest runs from it -/
theorem sParts_append (tail : List EPart) (ht : tail ≠ []) : ∀ (pre : List EPart) (data orig : GoVal) (pn : Bool) (prev : Option Bool),
    sParts (pre ++ tail) data orig pn prev =
      match runPre pre data orig pn prev with
      | .inl o => o
      | .inr (d, pn', pv') => sParts tail d orig pn' pv' := by
  intro pre
  induction pre with
  | nil => intro data orig pn prev; simp [runPre]
  | cons op rest ih =>
    intro data orig pn prev
    have hne : rest ++ tail ≠ [] := append_ne_nil_of_right rest tail ht
    rw [List.cons_append]
    have knfStep : ∀ (m : Bool), (match rest ++ tail with
          | [] => Out.knf
          | _ => sParts (rest ++ tail) GoVal.nil orig true (some m)) = sParts (rest ++ tail) GoVal.nil orig true (some m) := by
      intro m
      cases hrt : rest ++ tail with
      | nil => exact absurd hrt hne
      | cons a as => rfl
    conv => lhs; unfold sParts
    unfold runPre
    cases op with
    | ident name m =>
      simp only []
      by_cases hc : ((prev.isSome && pn) && !(prev.getD false) && !false) = true
      · simp only [hc, if_true]
      · simp only [hc]
        cases hs : sPart (.ident name m) data orig with
        | ok v => simp only []; exact ih v orig _ _
        | knf =>
          simp only []
          cases m with
          | true => simp only [Bool.false_eq_true, if_false]; exact ih _ orig _ _
          | false => simp
        | err => rfl
        | panic => rfl
        | unmodelled => rfl
        | fuel => rfl
    | filter lo =>
      simp only []
      by_cases hc : ((prev.isSome && pn) && !(prev.getD false) && !false) = true
      · simp only [hc, if_true]
      · simp only [hc]
        cases hs : sPart (.filter lo) data orig with
        | ok v => simp only []; exact ih v orig _ _
        | knf => simp
        | err => rfl
        | panic => rfl
        | unmodelled => rfl
        | fuel => rfl
    | func name ps sel =>
      simp only []
      by_cases hc : ((prev.isSome && pn) && !(prev.getD false) && !true) = true
      · simp at hc
      · simp only [hc]
        cases hs : sPart (.func name ps sel) data orig with
        | ok v => simp only []; exact ih v orig _ _
        | knf => simp
        | err => rfl
        | panic => rfl
        | unmodelled => rfl
        | fuel => rfl

/-- while no null has been met, the mark of the operation before plays no part -/
theorem sParts_prev_irrel (ops : List EPart) (data orig : GoVal) (p p' : Option Bool) :
    sParts ops data orig false p = sParts ops data orig false p' := by
  cases ops with
  | nil => simp [sParts]
  | cons op rest => unfold sParts; simp

/-- the key step itself never looks at its mark -/
theorem sPart_ident_mark (name : Bytes) (m m' : Bool) (cur orig : GoVal) : sPart (.ident name m) cur orig = sPart (.ident name m') cur orig := by
  unfold sPart; rfl

/-- at the head of what is left of a path: a key that exists and holds a value that is not null, no null met so far -/
theorem mark_irrelevant_head (name : Bytes) (rest : List EPart) (data orig v : GoVal) (prev : Option Bool)
    (hv : identDo name data = .ok v) (hn : isNilVal v = false) :
    sParts (.ident name true :: rest) data orig false prev = sParts (.ident name false :: rest) data orig false prev := by
  have e : ∀ m, sPart (.ident name m) data orig = .ok v := by intro m; unfold sPart; exact hv
  unfold sParts
  simp only [e, hn, Bool.or_false, Bool.and_false, Bool.false_and, Bool.false_eq_true, if_false]
  exact sParts_prev_irrel rest v orig _ _

/-- **C19**: anywhere in a path. If the operations in front of the key `name` leave evaluation at a value `d` without having met a
    null, and `name` exists in `d` with a value that is not null, then the path with the key marked and the path with the key
    unmarked have the same outcome, whatever operations follow. -/
theorem mark_irrelevant_on_present_key (pre rest : List EPart) (name : Bytes) (data orig d v : GoVal) (pn : Bool) (prev pv : Option Bool)
    (hpre : runPre pre data orig pn prev = .inr (d, false, pv))
    (hv : identDo name d = .ok v) (hn : isNilVal v = false) :
    sParts (pre ++ .ident name true :: rest) data orig pn prev = sParts (pre ++ .ident name false :: rest) data orig pn prev := by
  rw [sParts_append _ (by simp) pre, sParts_append _ (by simp) pre, hpre]
  exact mark_irrelevant_head name rest d orig v pv hv hn

/-- when the operations in front stop the evaluation, what follows - marked or not - is never looked at -/
theorem stopped_before (pre t1 t2 : List EPart) (h1 : t1 ≠ []) (h2 : t2 ≠ []) (data orig : GoVal) (pn : Bool) (prev : Option Bool) (o : Out)
    (hpre : runPre pre data orig pn prev = .inl o) :
    sParts (pre ++ t1) data orig pn prev = o ∧ sParts (pre ++ t2) data orig pn prev = o := by
  rw [sParts_append _ h1 pre, sParts_append _ h2 pre, hpre]; exact ⟨rfl, rfl⟩

/-- non-vacuity: `{"a": {"b": null}}`, the path `a?.b.c?` against `a.b.c?` - `a` exists and holds an object, so the hypotheses of
    `mark_irrelevant_on_present_key` are met with nothing in front of it (and so the two paths agree, although the property itself
    does not say what a marked key stepped into the null of the unmarked `b` gives) -/
def exMarkDoc : GoVal := .map .str false [[97]] [.map .str false [[98]] [.nil]]
example : ∃ v, identDo [97] exMarkDoc = .ok v ∧ isNilVal v = false ∧ runPre [] exMarkDoc exMarkDoc false none = .inr (exMarkDoc, false, none) :=
  ⟨_, rfl, rfl, rfl⟩

end Mp
