import Mp.EvalS
/-! Prototype: C06 — every integer carrier converts to the decimal of its value (core-only). -/
namespace Mp

/-- any integer kind, named or not, any value (no bound: includes every uint64) -/
theorem convert_int (k : NumKind) (named : Bool) (v : Int) : toDecimalIfNumber (.int k named v) = .dec ⟨v, 0⟩ := by
  unfold toDecimalIfNumber toDecimalCheck
  by_cases h : v = 0
  · subst h; simp [RV.of, isEmptyValue]
  · simp [RV.of, isEmptyValue, h, RV.derefOnce, RV.kind, GoVal.kind]
    cases k <;> simp [GoVal.isUnsigned]

/-- the same through one pointer -/
theorem convert_ptr_int (k : NumKind) (named : Bool) (v : Int) :
    toDecimalIfNumber (.ptr false (.int k named v)) = .dec ⟨v, 0⟩ := by
  unfold toDecimalIfNumber toDecimalCheck
  simp [RV.of, isEmptyValue, RV.derefOnce, RV.kind, GoVal.kind, RV.elem]

/-- and as a function receiver -/
theorem receiver_int (k : NumKind) (named : Bool) (v : Int) :
    toDecimalIfNumber (normalizeValue (.int k named v)) = .dec ⟨v, 0⟩ := by
  simp [normalizeValue, toDecimalIfNumber, toDecimalCheck]

theorem receiver_ptr_int (k : NumKind) (named : Bool) (v : Int) :
    toDecimalIfNumber (normalizeValue (.ptr false (.int k named v))) = .dec ⟨v, 0⟩ := by
  simp [normalizeValue, toDecimalIfNumber, toDecimalCheck]

/-- strings that are not numerals and booleans come back unchanged from a key lookup conversion -/
theorem convert_str (named : Bool) (s : Bytes) : numberKindsToDecimal (.str named s) = .str named s := by
  unfold numberKindsToDecimal
  by_cases h : s = []
  · subst h; simp [RV.of, isEmptyValue, RV.kind, GoVal.kind]
  · simp [RV.of, isEmptyValue, h, RV.derefOnce, RV.kind, GoVal.kind]

#print axioms convert_int
end Mp
