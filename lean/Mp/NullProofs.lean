import Mp.EvalS
/-! C19 — the six null / empty predicates: the Not-forms are exact negations on EVERY value, IsNullOrEmpty is the
    disjunction, and the table for the value kinds the property lists. C02 — a filter on a single object. -/
namespace Mp

def negB (o : Out) : Out := match o with | .ok (.bool n b) => .ok (.bool n (!b)) | o => o

theorem isNotNull_neg (ps : List Prm) (v : GoVal) : pureFunc "IsNotNull" ps v = (pureFunc "IsNull" ps v).map negB := by
  unfold pureFunc; simp only [Option.map]; cases ps <;> simp [negB, okBool]
theorem isNotEmpty_neg (ps : List Prm) (v : GoVal) : pureFunc "IsNotEmpty" ps v = (pureFunc "IsEmpty" ps v).map negB := by
  unfold pureFunc; simp only [Option.map]; cases ps <;> simp [negB, okBool]
theorem isNotNullOrEmpty_neg (ps : List Prm) (v : GoVal) :
    pureFunc "IsNotNullOrEmpty" ps v = (pureFunc "IsNullOrEmpty" ps v).map negB := by
  unfold pureFunc; simp only [Option.map]; cases ps <;> simp [negB, okBool]

def isEmptyVal (v : GoVal) : Bool := match v with | .nil => true | v => cmpZero v

theorem isEmpty_eq (v : GoVal) : pureFunc "IsEmpty" [] v = some (okBool (isEmptyVal v)) := by
  unfold pureFunc isEmptyVal; cases v <;> simp

/-- IsNullOrEmpty is the disjunction of IsNull and IsEmpty, on every value -/
theorem isNullOrEmpty_disj (v : GoVal) :
    pureFunc "IsNull" [] v = some (okBool (isNilVal v)) ∧ pureFunc "IsEmpty" [] v = some (okBool (isEmptyVal v)) ∧
      pureFunc "IsNullOrEmpty" [] v = some (okBool (isNilVal v || isEmptyVal v)) := by
  refine ⟨by unfold pureFunc; simp, isEmpty_eq v, ?_⟩
  unfold pureFunc isEmptyVal; cases v <;> simp

/-- IsNull is true exactly for null, nil pointers, nil slices and nil maps -/
theorem isNull_spec (v : GoVal) : pureFunc "IsNull" [] v = some (okBool (isNilVal v)) := by
  unfold pureFunc; simp

theorem isNull_table :
    isNilVal .nil = true ∧ (∀ x, isNilVal (.ptr true x) = true) ∧ (∀ n s, isNilVal (.str n s) = false) ∧
    (∀ d, isNilVal (.dec d) = false) ∧ (∀ k n i, isNilVal (.int k n i) = false) ∧ (∀ n b, isNilVal (.bool n b) = false) ∧
    (∀ ei xs, isNilVal (.slice ei false xs) = false) ∧ (∀ kk ks vs, isNilVal (.map kk false ks vs) = false) ∧
    (∀ ns vs, isNilVal (.struct ns vs) = false) := by
  simp [isNilVal]

/-- IsEmpty is true exactly for the zero values: "", 0, false, an empty array, an empty object -/
theorem isEmpty_table :
    (∀ n, cmpZero (.str n []) = true) ∧ (∀ n c s, cmpZero (.str n (c :: s)) = false) ∧
    (∀ d : Dec, cmpZero (.dec d) = (d.coef == 0)) ∧ (∀ k n i, cmpZero (.int k n i) = (i == 0)) ∧
    (∀ n b, cmpZero (.bool n b) = !b) ∧
    (∀ ei n, cmpZero (.slice ei n []) = true) ∧ (∀ ei n x xs, cmpZero (.slice ei n (x :: xs)) = false) ∧
    (∀ kk n, cmpZero (.map kk n [] []) = true) ∧ (∀ kk n k ks vs, cmpZero (.map kk n (k :: ks) vs) = false) := by
  simp [cmpZero]

theorem isEmpty_spec (v : GoVal) (hv : v ≠ .nil) : pureFunc "IsEmpty" [] v = some (okBool (cmpZero v)) := by
  unfold pureFunc
  cases v <;> simp_all

/-- the predicates take no argument: any argument is an error, not a panic -/
theorem null_predicates_reject_arguments (nm : String) (hn : nm ∈ ["IsNull", "IsNotNull", "IsEmpty", "IsNotEmpty", "IsNullOrEmpty", "IsNotNullOrEmpty"])
    (p : Prm) (ps : List Prm) (v : GoVal) : pureFunc nm (p :: ps) v = some .err := by
  simp only [List.mem_cons, List.mem_nil_iff, or_false] at hn
  rcases hn with rfl | rfl | rfl | rfl | rfl | rfl <;> (unfold pureFunc; simp)

/-! ### C02: a filter applied to a single object yields the object when the predicate is true and null otherwise -/
theorem filter_single_object (lo : ELogic) (ks : List Bytes) (vs : List GoVal) (orig : GoVal) (b : Bool) (m : Bool)
    (h : sLogic lo (.map .str false ks vs) orig = .ok (.bool m b)) :
    sPart (.filter lo) (.map .str false ks vs) orig = .ok (if b then .map .str false ks vs else .nil) := by
  unfold sPart
  simp only [asStructOrSlice, h]
  cases b <;> rfl

theorem filter_single_struct (lo : ELogic) (ns : List (Bytes × Bool)) (vs : List GoVal) (orig : GoVal) (b : Bool) (m : Bool)
    (h : sLogic lo (.struct ns vs) orig = .ok (.bool m b)) :
    sPart (.filter lo) (.struct ns vs) orig = .ok (if b then .struct ns vs else .nil) := by
  unfold sPart
  cases b <;> simp [asStructOrSlice, RV.of, RV.derefOnce, RV.kind, GoVal.kind, h]

/-- a filter over an empty array is empty -/
theorem filter_empty (lo : ELogic) (ei n : Bool) (orig : GoVal) :
    sPart (.filter lo) (.slice ei n []) orig = .ok (.slice true false []) := by
  unfold sPart
  simp [asStructOrSlice, RV.of, RV.derefOnce, RV.kind, GoVal.kind, filterList]

#print axioms isNotNull_neg
#print axioms isNotEmpty_neg
#print axioms isNotNullOrEmpty_neg
#print axioms isNullOrEmpty_disj
#print axioms isNull_table
#print axioms isEmpty_table
#print axioms null_predicates_reject_arguments
#print axioms filter_single_object
#print axioms filter_single_struct
#print axioms filter_empty
end Mp
