import Mp.Ast
namespace Mp

/-- the split the parser applies to the text of a key token: the `?` mark is one byte at its end -/
def splitMark (tok : Bytes) : Bytes × Bool := if tok.getLast? == some 63 then (tok.dropLast, true) else (tok, false)


inductive PR (α : Type) where
  | ok (a : α) (r : TokKind) (s : Sc)
  | err
  | panic
  | fuel
deriving Inhabited

def runeTok (c : Char) : TokKind := .rune c.toNat

def isRune (k : TokKind) (c : Char) : Bool := k == .rune c.toNat

/-- function names known to funcMap (prototype copy; the real model imports the generated table) -/
def knownFuncs : List String := ["Not","IsNull","IsNotNull","IsNullOrEmpty","IsNotNullOrEmpty","IsEmpty","IsNotEmpty","Select","Equal","NotEqual",
  "Less","LessOrEqual","Greater","GreaterOrEqual","Invert","Contains","NotContains","Prefix","NotPrefix","Suffix","NotSuffix","Sprintf","Count",
  "First","Last","Index","Any","Sum","Average","Maximum","Minimum","AsArray","Add","Subtract","Divide","Multiply","Modulo","AnyOf","TrimRight",
  "TrimLeft","Right","Left","DoesMatchRegex","ReplaceRegex","ReplaceAll","AsJSON","ParseJSON","ParseXML","ParseYAML","ParseTOML",
  "RemoveKeysByRegex","RemoveKeysByPrefix","RemoveKeysBySuffix"]

def boolFuncs : List String := ["Not","IsNull","IsNotNull","IsNullOrEmpty","IsNotNullOrEmpty","IsEmpty","IsNotEmpty","Equal","NotEqual",
  "Less","LessOrEqual","Greater","GreaterOrEqual","Invert","Contains","NotContains","Prefix","NotPrefix","Suffix","NotSuffix","Any","AnyOf","DoesMatchRegex"]

/-- strings.Replace(s, old, new, -1) for a 2-byte `old` and 1-byte `new` -/
def replace2 (a b : UInt8) (n : UInt8) : Bytes → Bytes
  | x :: y :: t => if x == a && y == b then n :: replace2 a b n t else x :: replace2 a b n (y :: t)
  | l => l

def unescapeRules : List (UInt8 × UInt8) := [(34, 34), (97, 7), (98, 8), (102, 12), (110, 10), (114, 13), (116, 9), (118, 11)]

def unescape (s : Bytes) : Bytes := unescapeRules.foldl (fun acc (c, o) => replace2 92 c o acc) s

def escape (s : Bytes) : Bytes :=
  s.flatMap fun c =>
    if c == 34 then [92, 34] else if c == 7 then [92, 97] else if c == 8 then [92, 98] else if c == 12 then [92, 102]
    else if c == 10 then [92, 110] else if c == 13 then [92, 114] else if c == 9 then [92, 116] else if c == 11 then [92, 118] else [c]

def stripQuotes (tt : Bytes) : Bytes :=
  if tt.length ≥ 2 && tt.head? == some 34 && tt.getLast? == some 34 then (tt.drop 1).dropLast else tt

def isDigitCh (ch : Int) : Bool := 48 ≤ ch && ch ≤ 57

/-- dealWithNumbers: returns (state after, userString piece, parsed literal) -/
def dealWithNumbers (T : Tables) (s : Sc) : Sc × Bytes × PF :=
  let tt := s.tok
  let (s, tt) :=
    if s.ch == 46 then
      let (_, s1) := scan T s
      if isDigitCh s1.ch then
        let (_, s2) := scan T s1
        (s2, tt ++ [46] ++ s2.tok)
      else (s1, tt ++ [46])
    else (s, tt)
  (s, tt, parseFloat tt)

mutual
def parsePath (T : Tables) : Nat → (isFilter mustEnd : Bool) → TokKind → Sc → PR PathOp
  | 0, _, _, _, _ => .fuel
  | fuel+1, isFilter, mustEnd, r, s =>
    if isRune r '$' then
      if isFilter then .err
      else
        let (r1, s1) := scan T s
        pathLoop T fuel true isFilter mustEnd [] (str "$") r1 s1
    else if isRune r '@' then
      let (r1, s1) := scan T s
      pathLoop T fuel false isFilter mustEnd [] (str "@") r1 s1
    else .err

def pathLoop (T : Tables) : Nat → (root isFilter mustEnd : Bool) → List PathPart → Bytes → TokKind → Sc → PR PathOp
  | 0, _, _, _, _, _, _, _ => .fuel
  | fuel+1, root, isFilter, mustEnd, ops, us, r, s =>
    let done (inv : Bool) : PR PathOp := .ok (.mk inv root isFilter mustEnd ops.reverse us) r s
    match r with
    -- Go: `break` then bare `return`: the named result nextR was never assigned, so the caller sees rune 0, not EOF
    | .eof => .ok (.mk false root isFilter mustEnd ops.reverse us) (.rune 0) s
    | .rune c =>
      if c == 46 then
        let (r1, s1) := scan T s
        pathLoop T fuel root isFilter mustEnd ops (us ++ [46]) r1 s1
      else if c == 44 || c == 41 || c == 93 || c == 125 then
        if mustEnd then
          match ops with
          | .func _ name _ _ :: _ => done (!(boolFuncs.map str).contains name)
          | .ident _ _ _ :: _ => done false
          | _ => done true
        else done false
      else if c == 91 then
        match parseLogic T fuel true r s with
        | .ok lo r1 s1 => pathLoop T fuel root isFilter mustEnd (.filter lo lo.us :: ops) (us ++ lo.us) r1 s1
        | .err => .err | .panic => .panic | .fuel => .fuel
      else .err
    | .ident =>
      if s.ch == 40 then
        match parseFunc T fuel s with
        | .ok f r1 s1 => pathLoop T fuel root isFilter mustEnd (f :: ops) (us ++ f.us) r1 s1
        | .err => .err | .panic => .panic | .fuel => .fuel
      else
        let name := s.tok
        let (nm, prop) := splitMark name
        let (r1, s1) := scan T s
        pathLoop T fuel root isFilter mustEnd (.ident nm prop name :: ops) (us ++ name) r1 s1
    | _ => .err

def parseLogic (T : Tables) : Nat → (isFilter : Bool) → TokKind → Sc → PR LogicOp
  | 0, _, _, _ => .fuel
  | fuel+1, isFilter, r, s =>
    match r with
    | .rune c =>
      if c == 123 || c == 91 then
        let us : Bytes := [UInt8.ofNat c]
        let (r1, s1) := scan T s
        let tt := s1.tok
        if r1 == .ident && (tt == str "AND" || tt == str "OR") then
          let (r2, s2) := scan T s1
          logicLoop T fuel false isFilter (if tt == str "AND" then str "And" else str "Or") [] (us ++ tt) r2 s2
        else if r1 == .ident then
          let (r2, s2) := scan T s1
          logicLoop T fuel true isFilter tt [] (us ++ tt) r2 s2
        else logicLoop T fuel false isFilter (str "And") [] us r1 s1
      else .err
    | _ => .err

def logicLoop (T : Tables) : Nat → (inv isFilter : Bool) → Bytes → List LogicPart → Bytes → TokKind → Sc → PR LogicOp
  | 0, _, _, _, _, _, _, _ => .fuel
  | fuel+1, inv, isFilter, ty, ops, us, r, s =>
    match r with
    | .eof => .ok (.mk inv isFilter ty ops.reverse us) (.rune 0) s
    | .rune c =>
      if c == 44 then
        let (r1, s1) := scan T s
        logicLoop T fuel inv isFilter ty ops (us ++ [44]) r1 s1
      else if c == 36 || c == 64 then
        match parsePath T fuel isFilter true r s with
        | .ok p r1 s1 => logicLoop T fuel inv isFilter ty (.path p :: ops) (us ++ p.us) r1 s1
        | .err => .err | .panic => .panic | .fuel => .fuel
      else if c == 123 then
        match parseLogic T fuel false r s with
        | .ok l r1 s1 => logicLoop T fuel inv isFilter ty (.logic l :: ops) (us ++ l.us) r1 s1
        | .err => .err | .panic => .panic | .fuel => .fuel
      else if c == 125 || c == 93 then
        let (r1, s1) := scan T s
        .ok (.mk inv isFilter ty ops.reverse (us ++ [UInt8.ofNat c])) r1 s1
      else .err
    | _ => .err

/-- called with the identifier as current token and look-ahead `(` -/
def parseFunc (T : Tables) : Nat → Sc → PR PathPart
  | 0, _ => .fuel
  | fuel+1, s =>
    if s.ch != 40 then .err else
    let name := s.tok
    let inv := !(knownFuncs.map str).contains name
    let (r1, s1) := scan T s   -- the '(' token
    let us := name ++ (match r1 with | .rune c => (String.singleton (Char.ofNat c)).toUTF8.toList | _ => [])
    let (r2, s2) := scan T s1  -- the first token of the argument list
    funcLoop T fuel inv name [] us r2 s2

def funcLoop (T : Tables) : Nat → Bool → Bytes → List Param → Bytes → TokKind → Sc → PR PathPart
  | 0, _, _, _, _, _, _ => .fuel
  | fuel+1, inv, name, ps, us, r, s =>
    let next (ps : List Param) (us : Bytes) (s : Sc) : PR PathPart :=
      let (r1, s1) := scan T s
      funcLoop T fuel inv name ps us r1 s1
    match r with
    | .eof => .ok (.func inv name ps.reverse us) (.rune 0) s
    | .rune c =>
      if c == 44 then next ps (us ++ [44]) s
      else if c == 41 then
        let (r1, s1) := scan T s
        .ok (.func inv name ps.reverse (us ++ [41])) r1 s1
      else if c == 36 || c == 64 then
        match parsePath T fuel false false r s with
        | .ok p r1 s1 => funcLoop T fuel inv name (.path p :: ps) (us ++ p.us) r1 s1
        | .err => .err | .panic => .panic | .fuel => .fuel
      else if c == 123 then
        match parseLogic T fuel false r s with
        | .ok l r1 s1 => funcLoop T fuel inv name (.logic l :: ps) (us ++ l.us) r1 s1
        | .err => .err | .panic => .panic | .fuel => .fuel
      else next ps (us ++ s.tok) s
    | .str | .raw | .chr =>
      let tt := s.tok
      next (.str (unescape (stripQuotes tt)) :: ps) (us ++ tt) s
    | .ident =>
      let tt := s.tok
      if tt == str "true" then next (.bool true :: ps) (us ++ tt) s
      else if tt == str "false" then next (.bool false :: ps) (us ++ tt) s
      else
        let (s1, piece, pf) := dealWithNumbers T s
        match pf with
        | .syntaxErr => .err
        | .rangeErr => .err
        | .nan => .err
        | .inf _ => .err
        | .fin neg m e =>
          let (c, x) := decOfFloat neg m e
          next (.num ⟨c, x⟩ :: ps) (us ++ piece) s1
end

inductive ParseResult where
  | op (t : TopOp)
  | neither
  | err
  | panic
  | fuel

def topLoop (T : Tables) : Nat → Option TopOp → TokKind → Sc → ParseResult
  | 0, _, _, _ => .fuel
  | fuel+1, top, r, s =>
    match r with
    | .eof => match top with | some t => .op t | none => .err
    | .rune c =>
      if c == 0 then (match top with | some t => .op t | none => .err)
      else if c == 123 then
        if top.isSome then .err else
        match parseLogic T (2 * s.rest.length + 16) false r s with
        | .ok l r1 s1 => topLoop T fuel (some (.logic l)) r1 s1
        | .err => .err | .panic => .panic | .fuel => .fuel
      else if c == 64 || c == 36 then
        if top.isSome then .err else
        match parsePath T (2 * s.rest.length + 16) false false r s with
        | .ok p r1 s1 => topLoop T fuel (some (.path p)) r1 s1
        | .err => .err | .panic => .panic | .fuel => .fuel
      else .err
    | _ => .err

def parse (T : Tables) (src : Bytes) : ParseResult × Nat :=
  let (r, s) := scan T (Sc.init src)
  (topLoop T (src.length + 4) none r s, 0)

end Mp
