import Mp.Analysis
/-! C20, second half — what `AddressedPaths` returns, as a set of facts about the model of its de-duplication loop
    (the loop at the end of `opPath.AddressedPaths` / `opLogicalOperation.AddressedPaths`):
    every candidate chain is covered (equal to, or a prefix of, a returned path), every returned path is one of the
    candidate chains and is not empty, and no path is returned twice. -/
namespace Mp

def dedupStep (ret : List (List Bytes)) (val : List Bytes) : List (List Bytes) :=
  if !ret.contains val && !isPrefixOfSome val ret && !val.isEmpty then ret ++ [val] else ret

theorem dedupPaths_eq (l : List (List Bytes)) : dedupPaths l = l.foldl dedupStep [] := rfl

theorem dedupStep_sub (ret : List (List Bytes)) (val : List Bytes) : ∀ x ∈ ret, x ∈ dedupStep ret val := by
  intro x hx
  unfold dedupStep
  split
  · exact List.mem_append_left _ hx
  · exact hx

theorem foldl_dedup_sub (l : List (List Bytes)) : ∀ ret, ∀ x ∈ ret, x ∈ l.foldl dedupStep ret := by
  induction l with
  | nil => intro ret x hx; exact hx
  | cons a t ih => intro ret x hx; exact ih _ x (dedupStep_sub ret a x hx)

/-- covered: `v` is in `ret`, or a (non-empty) proper-or-equal prefix of something in `ret` -/
def Covered (v : List Bytes) (ret : List (List Bytes)) : Prop := ∃ r ∈ ret, v <+: r

theorem covered_mono {v : List Bytes} {ret ret' : List (List Bytes)} (h : ∀ x ∈ ret, x ∈ ret') : Covered v ret → Covered v ret' := by
  rintro ⟨r, hr, hp⟩
  exact ⟨r, h r hr, hp⟩

theorem dedupStep_covers (ret : List (List Bytes)) (val : List Bytes) (hne : val ≠ []) : Covered val (dedupStep ret val) := by
  unfold dedupStep
  by_cases h1 : ret.contains val = true
  · simp only [h1, Bool.not_true, Bool.false_and, Bool.false_eq_true, if_false]
    exact ⟨val, by simpa using h1, List.prefix_refl _⟩
  · by_cases h2 : isPrefixOfSome val ret = true
    · simp only [h2, Bool.not_true, Bool.and_false, Bool.false_and, Bool.false_eq_true, if_false]
      unfold isPrefixOfSome at h2
      rw [List.any_eq_true] at h2
      obtain ⟨r, hr, hp⟩ := h2
      simp only [Bool.and_eq_true] at hp
      exact ⟨r, hr, List.isPrefixOf_iff_prefix.mp hp.1⟩
    · have he : val.isEmpty = false := by cases val with | nil => exact absurd rfl hne | cons _ _ => rfl
      simp only [Bool.not_eq_true] at h1 h2
      simp only [h1, h2, he, Bool.not_false, Bool.and_self, if_true]
      exact ⟨val, by simp, List.prefix_refl _⟩

theorem foldl_dedup_covers (l : List (List Bytes)) : ∀ ret v, v ≠ [] → (v ∈ l ∨ Covered v ret) → Covered v (l.foldl dedupStep ret) := by
  induction l with
  | nil =>
    intro ret v _ h
    rcases h with h | h
    · cases h
    · exact h
  | cons a t ih =>
    intro ret v hne h
    simp only [List.foldl_cons]
    apply ih _ v hne
    rcases h with h | h
    · rcases List.mem_cons.mp h with rfl | ht
      · exact Or.inr (dedupStep_covers ret v hne)
      · exact Or.inl ht
    · exact Or.inr (covered_mono (dedupStep_sub ret a) h)

/-- COVER: every non-empty candidate chain is equal to or a prefix of a returned path -/
theorem dedupPaths_covers (l : List (List Bytes)) (v : List Bytes) (hv : v ∈ l) (hne : v ≠ []) :
    ∃ r ∈ dedupPaths l, v <+: r := by
  rw [dedupPaths_eq]
  exact foldl_dedup_covers l [] v hne (Or.inl hv)

theorem foldl_dedup_from {l' : List (List Bytes)} (l : List (List Bytes)) : ∀ ret : List (List Bytes), (∀ x ∈ ret, x ∈ l' ∧ x ≠ []) → (∀ x ∈ l, x ∈ l') →
    ∀ x ∈ l.foldl dedupStep ret, x ∈ l' ∧ x ≠ [] := by
  induction l with
  | nil => intro ret h _ x hx; exact h x hx
  | cons a t ih =>
    intro ret h hl x hx
    simp only [List.foldl_cons] at hx
    refine ih (dedupStep ret a) ?_ (fun y hy => hl y (List.mem_cons_of_mem _ hy)) x hx
    intro y hy
    unfold dedupStep at hy
    split at hy
    · rename_i hc
      rcases List.mem_append.mp hy with h1 | h1
      · exact h y h1
      · have : y = a := by simpa using h1
        subst this
        refine ⟨hl y (by simp), ?_⟩
        intro he; subst he
        simp at hc
    · exact h y hy

/-- EXACT: every returned path is one of the candidate chains, and is not empty -/
theorem dedupPaths_from (l : List (List Bytes)) : ∀ x ∈ dedupPaths l, x ∈ l ∧ x ≠ [] := by
  rw [dedupPaths_eq]
  exact foldl_dedup_from (l' := l) l [] (by simp) (fun x hx => hx)

theorem dedupStep_nodup (ret : List (List Bytes)) (val : List Bytes) (h : ret.Nodup) : (dedupStep ret val).Nodup := by
  unfold dedupStep
  split
  · rename_i hc
    simp only [Bool.and_eq_true, Bool.not_eq_true'] at hc
    have hnm : val ∉ ret := by
      intro hm
      have : ret.contains val = true := by simpa using hm
      rw [this] at hc
      exact absurd hc.1.1 (by simp)
    rw [List.nodup_append]
    refine ⟨h, by simp, ?_⟩
    intro a ha b hb
    have : b = val := by simpa using hb
    subst this
    intro hab; subst hab
    exact hnm ha
  · exact h

theorem foldl_dedup_nodup (l : List (List Bytes)) : ∀ ret, ret.Nodup → (l.foldl dedupStep ret).Nodup := by
  induction l with
  | nil => intro ret h; exact h
  | cons a t ih => intro ret h; exact ih _ (dedupStep_nodup ret a h)

/-- NO DUPLICATE: no path is returned twice -/
theorem dedupPaths_nodup (l : List (List Bytes)) : (dedupPaths l).Nodup := by
  rw [dedupPaths_eq]
  exact foldl_dedup_nodup l [] List.nodup_nil

/-- the whole analysis of a query returns no path twice and no empty path -/
theorem addrTop_nodup (t : TopOp) : (addrTop t).Nodup := by
  cases t with
  | path p =>
    cases p with
    | mk a b c d ops e =>
      unfold addrTop addrPath
      cases ops with
      | nil => exact List.nodup_nil
      | cons o os => exact dedupPaths_nodup _
  | logic l => exact dedupPaths_nodup _

theorem addrTop_nonempty (t : TopOp) : ∀ x ∈ addrTop t, x ≠ [] := by
  cases t with
  | path p =>
    cases p with
    | mk a b c d ops e =>
      unfold addrTop addrPath
      cases ops with
      | nil => intro x hx; cases hx
      | cons o os => intro x hx; exact (dedupPaths_from _ x hx).2
  | logic l => intro x hx; exact (dedupPaths_from _ x hx).2

/-- the chain of the path itself (its leading keys) is covered by what the analysis of a `$` path returns -/
theorem addrParts_idents_mem : ∀ (ops : List PathPart) (idents : List Bytes),
    ∃ ks, idents ++ ks ∈ addrParts idents ops := by
  intro ops
  induction ops with
  | nil => intro idents; exact ⟨[], by simp [addrParts]⟩
  | cons o os ih =>
    intro idents
    cases o with
    | ident name a b =>
      obtain ⟨ks, hk⟩ := ih (idents ++ [name])
      exact ⟨name :: ks, by simpa [addrParts, List.append_assoc] using hk⟩
    | filter lo a =>
      obtain ⟨ks, hk⟩ := ih idents
      exact ⟨ks, by simp only [addrParts]; exact List.mem_append_right _ hk⟩
    | func a b params c =>
      obtain ⟨ks, hk⟩ := ih idents
      exact ⟨ks, by simp only [addrParts]; exact List.mem_append_right _ hk⟩

#print axioms dedupPaths_covers
#print axioms dedupPaths_from
#print axioms dedupPaths_nodup
#print axioms addrTop_nodup
#print axioms addrTop_nonempty
#print axioms addrParts_idents_mem
end Mp
