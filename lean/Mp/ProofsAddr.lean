import Mp.Analysis
/-! C20, second half — what `AddressedPaths` returns, as a set of facts about the model of its de-duplication loop
    (the loop at the end of `opPath.AddressedPaths` / `opLogicalOperation.AddressedPaths`):
    every candidate chain is covered (equal to, or a prefix of, a returned path), every returned path is one of the
    candidate chains and is not empty, and no path is returned twice. -/
namespace Mp

def dedupStep (ret : List (List Bytes)) (val : List Bytes) : List (List Bytes) :=
  if !ret.contains val && !isPrefixOfSome val ret && !val.isEmpty then ret ++ [val] else ret

theorem dedupPaths_eq (l : List (List Bytes)) : dedupPaths l = l.foldl dedupStep [] := rfl

theorem dedupStep_sub (ret : List (List Bytes)) (val : List Bytes) : ∀ x ∈ ret, x ∈ dedupStep ret val := by
  intro x hx
  unfold dedupStep
  split
  · exact List.mem_append_left _ hx
  · exact hx

theorem foldl_dedup_sub (l : List (List Bytes)) : ∀ ret, ∀ x ∈ ret, x ∈ l.foldl dedupStep ret := by
  induction l with
  | nil => intro ret x hx; exact hx
  | cons a t ih => intro ret x hx; exact ih _ x (dedupStep_sub ret a x hx)

/-- covered: `v` is in `ret`, or a (non-empty) proper-or-equal prefix of something in `ret` -/
def Covered (v : List Bytes) (ret : List (List Bytes)) : Prop := ∃ r ∈ ret, v <+: r

theorem covered_mono {v : List Bytes} {ret ret' : List (List Bytes)} (h : ∀ x ∈ ret, x ∈ ret') : Covered v ret → Covered v ret' := by
  rintro ⟨r, hr, hp⟩
  exact ⟨r, h r hr, hp⟩

theorem dedupStep_covers (ret : List (List Bytes)) (val : List Bytes) (hne : val ≠ []) : Covered val (dedupStep ret val) := by
  unfold dedupStep
  by_cases h1 : ret.contains val = true
  · simp only [h1, Bool.not_true, Bool.false_and, Bool.false_eq_true, if_false]
    exact ⟨val, by simpa using h1, List.prefix_refl _⟩
  · by_cases h2 : isPrefixOfSome val ret = true
    · simp only [h2, Bool.not_true, Bool.and_false, Bool.false_and, Bool.false_eq_true, if_false]
      unfold isPrefixOfSome at h2
      rw [List.any_eq_true] at h2
      obtain ⟨r, hr, hp⟩ := h2
      simp only [Bool.and_eq_true] at hp
      exact ⟨r, hr, List.isPrefixOf_iff_prefix.mp hp.1⟩
    · have he : val.isEmpty = false := by cases val with | nil => exact absurd rfl hne | cons _ _ => rfl
      simp only [Bool.not_eq_true] at h1 h2
      simp only [h1, h2, he, Bool.not_false, Bool.and_self, if_true]
      exact ⟨val, by simp, List.prefix_refl _⟩

theorem foldl_dedup_covers (l : List (List Bytes)) : ∀ ret v, v ≠ [] → (v ∈ l ∨ Covered v ret) → Covered v (l.foldl dedupStep ret) := by
  induction l with
  | nil =>
    intro ret v _ h
    rcases h with h | h
    · cases h
    · exact h
  | cons a t ih =>
    intro ret v hne h
    simp only [List.foldl_cons]
    apply ih _ v hne
    rcases h with h | h
    · rcases List.mem_cons.mp h with rfl | ht
      · exact Or.inr (dedupStep_covers ret v hne)
      · exact Or.inl ht
    · exact Or.inr (covered_mono (dedupStep_sub ret a) h)

/-- COVER: every non-empty candidate chain is equal to or a prefix of a returned path -/
theorem dedupPaths_covers (l : List (List Bytes)) (v : List Bytes) (hv : v ∈ l) (hne : v ≠ []) :
    ∃ r ∈ dedupPaths l, v <+: r := by
  rw [dedupPaths_eq]
  exact foldl_dedup_covers l [] v hne (Or.inl hv)

theorem foldl_dedup_from {l' : List (List Bytes)} (l : List (List Bytes)) : ∀ ret : List (List Bytes), (∀ x ∈ ret, x ∈ l' ∧ x ≠ []) → (∀ x ∈ l, x ∈ l') →
    ∀ x ∈ l.foldl dedupStep ret, x ∈ l' ∧ x ≠ [] := by
  induction l with
  | nil => intro ret h _ x hx; exact h x hx
  | cons a t ih =>
    intro ret h hl x hx
    simp only [List.foldl_cons] at hx
    refine ih (dedupStep ret a) ?_ (fun y hy => hl y (List.mem_cons_of_mem _ hy)) x hx
    intro y hy
    unfold dedupStep at hy
    split at hy
    · rename_i hc
      rcases List.mem_append.mp hy with h1 | h1
      · exact h y h1
      · have : y = a := by simpa using h1
        subst this
        refine ⟨hl y (by simp), ?_⟩
        intro he; subst he
        simp at hc
    · exact h y hy

/-- EXACT: every returned path is one of the candidate chains, and is not empty -/
theorem dedupPaths_from (l : List (List Bytes)) : ∀ x ∈ dedupPaths l, x ∈ l ∧ x ≠ [] := by
  rw [dedupPaths_eq]
  exact foldl_dedup_from (l' := l) l [] (by simp) (fun x hx => hx)

theorem dedupStep_nodup (ret : List (List Bytes)) (val : List Bytes) (h : ret.Nodup) : (dedupStep ret val).Nodup := by
  unfold dedupStep
  split
  · rename_i hc
    simp only [Bool.and_eq_true, Bool.not_eq_true'] at hc
    have hnm : val ∉ ret := by
      intro hm
      have : ret.contains val = true := by simpa using hm
      rw [this] at hc
      exact absurd hc.1.1 (by simp)
    rw [List.nodup_append]
    refine ⟨h, by simp, ?_⟩
    intro a ha b hb
    have : b = val := by simpa using hb
    subst this
    intro hab; subst hab
    exact hnm ha
  · exact h

theorem foldl_dedup_nodup (l : List (List Bytes)) : ∀ ret, ret.Nodup → (l.foldl dedupStep ret).Nodup := by
  induction l with
  | nil => intro ret h; exact h
  | cons a t ih => intro ret h; exact ih _ (dedupStep_nodup ret a h)

/-- NO DUPLICATE: no path is returned twice -/
theorem dedupPaths_nodup (l : List (List Bytes)) : (dedupPaths l).Nodup := by
  rw [dedupPaths_eq]
  exact foldl_dedup_nodup l [] List.nodup_nil

/-- the whole analysis of a query returns no path twice and no empty path -/
theorem addrTop_nodup (t : TopOp) : (addrTop t).Nodup := dedupPaths_nodup _

theorem addrTop_nonempty (t : TopOp) : ∀ x ∈ addrTop t, x ≠ [] := fun x hx => (dedupPaths_from _ x hx).2

/-- every returned path is one of the chains collected from the query -/
theorem addrTop_from (t : TopOp) : ∀ x ∈ addrTop t, ∃ b, (x, b) ∈ apTop t := by
  intro x hx
  have := (dedupPaths_from _ x hx).1
  obtain ⟨c, hc, rfl⟩ := List.mem_map.mp this
  exact ⟨c.2, hc⟩

/-- every collected chain is covered: equal to, or a prefix of, a returned path -/
theorem addrTop_covers (t : TopOp) (c : List Bytes × Bool) (hc : c ∈ apTop t) (hne : c.1 ≠ []) : Covered c.1 (addrTop t) :=
  dedupPaths_covers _ c.1 (List.mem_map.mpr ⟨c, hc, rfl⟩) hne

/-- the keys of a path, in order -/
def identsOf : List PathPart → List Bytes
  | [] => []
  | .ident name _ _ :: rest => name :: identsOf rest
  | _ :: rest => identsOf rest

/-- the chain of the path itself is collected, marked with the path's root -/
theorem apParts_idents_mem : ∀ (ops : List PathPart) (root : Bool) (idents : List Bytes),
    (idents ++ identsOf ops, root) ∈ apParts root idents ops := by
  intro ops
  induction ops with
  | nil => intro root idents; simp [apParts, identsOf]
  | cons o os ih =>
    intro root idents
    cases o with
    | ident name a b =>
      have := ih root (idents ++ [name])
      simpa [apParts, identsOf, List.append_assoc] using this
    | filter lo a =>
      simp only [apParts, identsOf]; exact List.mem_append_right _ (ih root idents)
    | func a b params c =>
      simp only [apParts, identsOf]; exact List.mem_append_right _ (ih root idents)

/-! ### every `$` path of the query, wherever it stands — the query itself, an operand of a group, an argument (path or group) of a
    function, inside a filter condition at any depth — has its chain of keys covered by what AddressedPaths returns -/
mutual
def dcPath : PathOp → List (List Bytes)
  | .mk _ root _ _ ops _ => (if root && !ops.isEmpty then [identsOf ops] else []) ++ dcParts ops
def dcParts : List PathPart → List (List Bytes)
  | [] => []
  | .ident _ _ _ :: rest => dcParts rest
  | .filter lo _ :: rest => dcLogic lo ++ dcParts rest
  | .func _ _ params _ :: rest => dcParams params ++ dcParts rest
def dcParams : List Param → List (List Bytes)
  | [] => []
  | .path p :: rest => dcPath p ++ dcParams rest
  | .logic l :: rest => dcLogic l ++ dcParams rest
  | _ :: rest => dcParams rest
def dcLogic : LogicOp → List (List Bytes)
  | .mk _ _ _ ops _ => dcLParts ops
def dcLParts : List LogicPart → List (List Bytes)
  | [] => []
  | .path p :: rest => dcPath p ++ dcLParts rest
  | .logic l :: rest => dcLogic l ++ dcLParts rest
end

def dcTop : TopOp → List (List Bytes)
  | .path p => dcPath p
  | .logic l => dcLogic l

theorem filter_keeps_rooted (idents : List Bytes) (root : Bool) (l : List (List Bytes × Bool)) (c : List Bytes) (h : (c, true) ∈ l) :
    (c, true) ∈ l.map (fun v => if v.2 then v else (idents ++ v.1, root)) :=
  List.mem_map.mpr ⟨(c, true), h, by simp⟩

mutual
theorem dc_path (p : PathOp) : ∀ c ∈ dcPath p, (c, true) ∈ apPath p := by
  cases p with
  | mk inv root isF me ops us =>
    intro c hc
    unfold dcPath at hc
    unfold apPath
    cases ops with
    | nil => simp [dcParts] at hc
    | cons o os =>
      rcases List.mem_append.mp hc with h1 | h2
      · cases root with
        | false => simp at h1
        | true =>
          simp only [List.isEmpty_cons, Bool.not_false, Bool.and_self, if_true, List.mem_singleton] at h1
          subst h1
          simpa using apParts_idents_mem (o :: os) true []
      · exact dc_parts (o :: os) root [] c h2
termination_by structural p
theorem dc_parts (ops : List PathPart) (root : Bool) (idents : List Bytes) : ∀ c ∈ dcParts ops, (c, true) ∈ apParts root idents ops := by
  cases ops with
  | nil => intro c hc; simp [dcParts] at hc
  | cons o os =>
    intro c hc
    cases o with
    | ident name a b =>
      unfold dcParts at hc
      unfold apParts
      exact dc_parts os root (idents ++ [name]) c hc
    | filter lo a =>
      unfold dcParts at hc
      unfold apParts
      rcases List.mem_append.mp hc with h1 | h2
      · exact List.mem_append_left _ (filter_keeps_rooted idents root _ c (dc_logic lo c h1))
      · exact List.mem_append_right _ (dc_parts os root idents c h2)
    | func a b params d =>
      unfold dcParts at hc
      unfold apParts
      rcases List.mem_append.mp hc with h1 | h2
      · exact List.mem_append_left _ (dc_params params c h1)
      · exact List.mem_append_right _ (dc_parts os root idents c h2)
termination_by structural ops
theorem dc_params (ps : List Param) : ∀ c ∈ dcParams ps, (c, true) ∈ apParams ps := by
  cases ps with
  | nil => intro c hc; simp [dcParams] at hc
  | cons q qs =>
    intro c hc
    cases q with
    | num d => unfold dcParams at hc; unfold apParams; exact dc_params qs c hc
    | str s => unfold dcParams at hc; unfold apParams; exact dc_params qs c hc
    | bool b => unfold dcParams at hc; unfold apParams; exact dc_params qs c hc
    | path p =>
      unfold dcParams at hc; unfold apParams
      rcases List.mem_append.mp hc with h1 | h2
      · exact List.mem_append_left _ (dc_path p c h1)
      · exact List.mem_append_right _ (dc_params qs c h2)
    | logic l =>
      unfold dcParams at hc; unfold apParams
      rcases List.mem_append.mp hc with h1 | h2
      · exact List.mem_append_left _ (dc_logic l c h1)
      · exact List.mem_append_right _ (dc_params qs c h2)
termination_by structural ps
theorem dc_logic (l : LogicOp) : ∀ c ∈ dcLogic l, (c, true) ∈ apLogic l := by
  cases l with
  | mk inv isF ty ops us =>
    intro c hc
    unfold dcLogic at hc
    unfold apLogic
    exact dc_lparts ops c hc
termination_by structural l
theorem dc_lparts (ops : List LogicPart) : ∀ c ∈ dcLParts ops, (c, true) ∈ apLogicParts ops := by
  cases ops with
  | nil => intro c hc; simp [dcLParts] at hc
  | cons o os =>
    intro c hc
    cases o with
    | path p =>
      unfold dcLParts at hc; unfold apLogicParts
      rcases List.mem_append.mp hc with h1 | h2
      · exact List.mem_append_left _ (dc_path p c h1)
      · exact List.mem_append_right _ (dc_lparts os c h2)
    | logic l =>
      unfold dcLParts at hc; unfold apLogicParts
      rcases List.mem_append.mp hc with h1 | h2
      · exact List.mem_append_left _ (dc_logic l c h1)
      · exact List.mem_append_right _ (dc_lparts os c h2)
termination_by structural ops
end

/-- **C20, AddressedPaths, cover**: the chain of every `$` path of the query is equal to, or a prefix of, a returned path -/
theorem dollar_chains_covered (t : TopOp) (c : List Bytes) (hc : c ∈ dcTop t) (hne : c ≠ []) : Covered c (addrTop t) := by
  have hm : (c, true) ∈ apTop t := by
    cases t with
    | path p => exact dc_path p c hc
    | logic l => exact dc_logic l c hc
  exact addrTop_covers t (c, true) hm hne

/-- a chain collected (unmarked) from a condition of a filter is collected from the path with the keys before the filter in front -/
theorem apParts_filter_mem (lo : LogicOp) (us : Bytes) (rest : List PathPart) (root : Bool) (c : List Bytes) (hc : (c, false) ∈ apLogic lo) :
    ∀ (pre : List PathPart) (idents : List Bytes),
      (idents ++ identsOf pre ++ c, root) ∈ apParts root idents (pre ++ .filter lo us :: rest) := by
  intro pre
  induction pre with
  | nil =>
    intro idents
    simp only [List.nil_append, identsOf, List.append_nil, apParts]
    exact List.mem_append_left _ (List.mem_map.mpr ⟨(c, false), hc, by simp⟩)
  | cons o os ih =>
    intro idents
    cases o with
    | ident name a b =>
      have := ih (idents ++ [name])
      simpa [apParts, identsOf, List.append_assoc] using this
    | filter lo' a =>
      simp only [List.cons_append, apParts, identsOf]; exact List.mem_append_right _ (ih idents)
    | func a b params d =>
      simp only [List.cons_append, apParts, identsOf]; exact List.mem_append_right _ (ih idents)

/-- **C20, AddressedPaths, filter conditions**: for a path `root.k1…kn[ …, @.j1…jm…, … ]…` the chain k1…kn j1…jm — the chain of the condition
    prefixed by the chain of the collection it filters — is equal to, or a prefix of, a returned path -/
theorem filter_condition_chain_covered (inv root isF me : Bool) (us us' : Bytes) (pre rest : List PathPart)
    (linv lisF : Bool) (lty lus : Bytes) (conds : List LogicPart)
    (cinv cisF cme : Bool) (cus : Bytes) (cops : List PathPart) (hne : cops ≠ []) (hk : identsOf pre ++ identsOf cops ≠ [])
    (hmem : LogicPart.path (.mk cinv false cisF cme cops cus) ∈ conds) :
    Covered (identsOf pre ++ identsOf cops)
      (addrTop (.path (.mk inv root isF me (pre ++ .filter (.mk linv lisF lty conds lus) us' :: rest) us))) := by
  -- the condition's own chain is collected from the group
  have hcond : (identsOf cops, false) ∈ apLogic (.mk linv lisF lty conds lus) := by
    unfold apLogic
    have hp : (identsOf cops, false) ∈ apPath (.mk cinv false cisF cme cops cus) := by
      unfold apPath
      cases cops with
      | nil => exact absurd rfl hne
      | cons o os => simpa using apParts_idents_mem (o :: os) false []
    clear hne
    induction conds with
    | nil => cases hmem
    | cons q qs ih =>
      rcases List.mem_cons.mp hmem with h | h
      · subst h; unfold apLogicParts; exact List.mem_append_left _ hp
      · cases q with
        | path p' => unfold apLogicParts; exact List.mem_append_right _ (ih h)
        | logic l' => unfold apLogicParts; exact List.mem_append_right _ (ih h)
  have hall := apParts_filter_mem (.mk linv lisF lty conds lus) us' rest root (identsOf cops) hcond pre []
  have hm : (identsOf pre ++ identsOf cops, root) ∈ apTop (.path (.mk inv root isF me (pre ++ .filter (.mk linv lisF lty conds lus) us' :: rest) us)) := by
    unfold apTop apPath
    cases pre with
    | nil => simpa using hall
    | cons o os => simpa using hall
  exact addrTop_covers _ (_, root) hm hk

#print axioms dedupPaths_covers
#print axioms dedupPaths_from
#print axioms dedupPaths_nodup
#print axioms addrTop_nodup
#print axioms addrTop_nonempty
#print axioms addrTop_from
#print axioms addrTop_covers
#print axioms apParts_idents_mem
#print axioms dollar_chains_covered
#print axioms filter_condition_chain_covered
end Mp
