namespace Lockset
/-! Prototype for C12: lockset discipline ⇒ conflicting accesses by different threads are separated by
    release(by first) … acquire(by second) of the guard, in every well-formed trace of any length / any number of threads. -/

inductive Act | acq (m : Nat) | rel (m : Nat) | rd (x : Nat) | wr (x : Nat)
deriving DecidableEq, Repr

structure Ev where
  tid : Nat
  act : Act
deriving DecidableEq, Repr

abbrev Locks := Nat → Option Nat

def step (h : Locks) (e : Ev) : Option Locks :=
  match e.act with
  | .acq m => if h m = none then some (fun k => if k = m then some e.tid else h k) else none
  | .rel m => if h m = some e.tid then some (fun k => if k = m then none else h k) else none
  | _ => some h

def run : Locks → List Ev → Option Locks
  | h, [] => some h
  | h, e :: es => match step h e with
    | none => none
    | some h' => run h' es

/-- Lemma A: if `t` holds `g` before a well-formed segment and not after it, the segment contains `t`'s release of `g`,
    and we can split there. -/
theorem released (g t : Nat) : ∀ (tr : List Ev) (h h' : Locks), run h tr = some h' → h g = some t → h' g ≠ some t →
    ∃ pre post hmid, tr = pre ++ ⟨t, .rel g⟩ :: post ∧ run hmid post = some h' ∧ hmid g = none := by
  intro tr
  induction tr with
  | nil => intro h h' hr hg hg'; simp [run] at hr; subst hr; exact absurd hg hg'
  | cons e es ih =>
    intro h h' hr hg hg'
    simp only [run] at hr
    cases hs : step h e with
    | none => simp [hs] at hr
    | some h1 =>
      simp only [hs] at hr
      by_cases he : e = ⟨t, .rel g⟩
      · subst he
        refine ⟨[], es, h1, rfl, hr, ?_⟩
        simp only [step, hg, if_true] at hs
        cases hs; simp
      · have hg1 : h1 g = some t := by
          obtain ⟨tid, act⟩ := e
          cases act with
          | acq m =>
            simp only [step] at hs
            split at hs
            · cases hs
              by_cases hm : g = m
              · subst hm; simp_all
              · simp [hm, hg]
            · cases hs
          | rel m =>
            simp only [step] at hs
            split at hs
            · rename_i hh
              cases hs
              by_cases hm : g = m
              · subst hm
                rw [hg] at hh
                have : t = tid := Option.some.inj hh
                subst this
                exact absurd rfl he
              · simp [hm, hg]
            · cases hs
          | rd x => simp only [step] at hs; cases hs; exact hg
          | wr x => simp only [step] at hs; cases hs; exact hg
        obtain ⟨pre, post, hmid, htr, hrun, hnone⟩ := ih h1 h' hr hg1 hg'
        exact ⟨e :: pre, post, hmid, by simp [htr], hrun, hnone⟩

/-- Lemma B: if `g` is free (or held by someone else) before and held by `t` after, the segment contains `t`'s acquire. -/
theorem acquired (g t : Nat) : ∀ (tr : List Ev) (h h' : Locks), run h tr = some h' → h g ≠ some t → h' g = some t →
    ⟨t, .acq g⟩ ∈ tr := by
  intro tr
  induction tr with
  | nil => intro h h' hr hg hg'; simp [run] at hr; subst hr; exact absurd hg' hg
  | cons e es ih =>
    intro h h' hr hg hg'
    simp only [run] at hr
    cases hs : step h e with
    | none => simp [hs] at hr
    | some h1 =>
      simp only [hs] at hr
      by_cases he : e = ⟨t, .acq g⟩
      · subst he; exact List.mem_cons_self
      · have hg1 : h1 g ≠ some t := by
          obtain ⟨tid, act⟩ := e
          cases act with
          | acq m =>
            simp only [step] at hs
            split at hs
            · cases hs
              by_cases hm : g = m
              · subst hm
                simp only [if_true]
                intro hc
                have : tid = t := Option.some.inj hc
                subst this; exact he rfl
              · simp [hm, hg]
            · cases hs
          | rel m =>
            simp only [step] at hs
            split at hs
            · cases hs
              by_cases hm : g = m
              · subst hm; simp
              · simp [hm, hg]
            · cases hs
          | rd x => simp only [step] at hs; cases hs; exact hg
          | wr x => simp only [step] at hs; cases hs; exact hg
        exact List.mem_cons_of_mem _ (ih h1 h' hr hg1 hg')

def isAccess (x : Nat) : Act → Bool
  | .rd y => x == y
  | .wr y => x == y
  | _ => false

theorem step_access (h : Locks) (e : Ev) (x : Nat) (ha : isAccess x e.act = true) : step h e = some h := by
  obtain ⟨tid, act⟩ := e
  cases act <;> simp_all [isAccess, step]

/-- Main theorem. A trace `pre ++ e₁ :: mid ++ e₂ :: post` that is well-formed from `h0`, where both `e₁` and `e₂`
    access `x` while holding `guard x` (the discipline, stated at those two points) and belong to different threads,
    has in `mid` a release of the guard by the first thread followed by an acquire by the second. -/
theorem lockset_orders (guard : Nat → Nat) (x : Nat) (h0 hend : Locks) (pre mid post : List Ev) (e1 e2 : Ev)
    (hwf : run h0 (pre ++ e1 :: (mid ++ e2 :: post)) = some hend)
    (a1 : isAccess x e1.act = true) (a2 : isAccess x e2.act = true) (hne : e1.tid ≠ e2.tid)
    -- discipline at the two accesses: the lock state reached just before each holds the guard for the accessor
    (d1 : ∀ h1, run h0 pre = some h1 → h1 (guard x) = some e1.tid)
    (d2 : ∀ h2, run h0 (pre ++ e1 :: mid) = some h2 → h2 (guard x) = some e2.tid) :
    ∃ m1 m2, mid = m1 ++ ⟨e1.tid, .rel (guard x)⟩ :: m2 ∧ ⟨e2.tid, .acq (guard x)⟩ ∈ m2 := by
  -- split the run
  have run_app : ∀ (a b : List Ev) (h h' : Locks), run h (a ++ b) = some h' → ∃ hm, run h a = some hm ∧ run hm b = some h' := by
    intro a
    induction a with
    | nil => intro b h h' hr; exact ⟨h, rfl, hr⟩
    | cons e es ih =>
      intro b h h' hr
      simp only [List.cons_append, run] at hr ⊢
      cases hs : step h e with
      | none => simp [hs] at hr
      | some h1 => simp only [hs] at hr ⊢; exact ih b h1 h' hr
  have run_app' : ∀ (a b : List Ev) (h hm h' : Locks), run h a = some hm → run hm b = some h' → run h (a ++ b) = some h' := by
    intro a
    induction a with
    | nil => intro b h hm h' h1 h2; simp [run] at h1; subst h1; exact h2
    | cons e es ih =>
      intro b h hm h' h1 h2
      simp only [List.cons_append, run] at h1 ⊢
      cases hs : step h e with
      | none => simp [hs] at h1
      | some hx => simp only [hs] at h1 ⊢; exact ih b hx hm h' h1 h2
  obtain ⟨h1, hpre, hrest⟩ := run_app pre _ h0 hend hwf
  simp only [run, step_access h1 e1 x a1] at hrest
  obtain ⟨h2, hmid, hrest2⟩ := run_app mid _ h1 hend hrest
  have g1 := d1 h1 hpre
  have hfull : run h0 (pre ++ e1 :: mid) = some h2 := by
    apply run_app' pre (e1 :: mid) h0 h1 h2 hpre
    simp only [run, step_access h1 e1 x a1]; exact hmid
  have g2 := d2 h2 hfull
  have hne' : h2 (guard x) ≠ some e1.tid := by rw [g2]; intro hc; exact hne (Option.some.inj hc).symm
  obtain ⟨m1, m2, hm, hsplit, hrun2, hfree⟩ := released (guard x) e1.tid mid h1 h2 hmid g1 hne'
  refine ⟨m1, m2, hsplit, ?_⟩
  exact acquired (guard x) e2.tid m2 hm h2 hrun2 (by rw [hfree]; simp) g2

#print axioms lockset_orders

end Lockset
