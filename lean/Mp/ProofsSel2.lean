import Mp.ProofsL2
import Mp.ProofsSel
/-! C17 — "an aggregate over a key stepped across objects equals the aggregate over those same values given directly":
    on a non-empty list of objects that all hold the key (with a value that is not itself a list), stepping the key
    across the list (`$.xs.k`) and selecting it element by element (`$.xs.Select("$.k")`) produce THE SAME list value,
    so every function applied afterwards (Sum, Average, Minimum, Maximum, Count, First, ...) receives the same input. -/
namespace Mp
namespace L2

/-- an object that holds the key, with a value that is not a list -/
def HasScalarKey (name : Bytes) (x : Doc) : Prop :=
  ∃ ks vs v, x = .obj ks vs ∧ specGet name ks vs = some v ∧ (∀ ys, v ≠ .arr ys)

theorem isSliceKind_render_scalar (v : Doc) (h : ∀ ys, v ≠ .arr ys) : isSliceKind (render v) = none := by
  cases v with
  | arr ys => exact absurd rfl (h ys)
  | null => rfl
  | bool b => rfl
  | num d => rfl
  | str s => rfl
  | obj ks vs => rfl

theorem identDo_hasKey (name : Bytes) (x : Doc) (hg : Good x) (hk : HasScalarKey name x) :
    ∃ v, projGet name x = some v ∧ identDo name (render x) = .ok (render v) ∧ isSliceKind (render v) = none := by
  obtain ⟨ks, vs, v, rfl, hs, hv⟩ := hk
  cases hg with
  | obj _ _ hl hu hgs =>
    refine ⟨v, hs, ?_, isSliceKind_render_scalar v hv⟩
    rw [identDo_obj name ks vs hl (hu name), hs]

/-- the element-by-element selection of the key -/
theorem selectList_key (name : Bytes) : ∀ (xs : List Doc) (acc : List GoVal),
    (∀ x ∈ xs, Good x) → (∀ x ∈ xs, HasScalarKey name x) →
    selectList (identDo name) (renderList xs) acc =
      .ok (.slice true (acc ++ renderList (xs.filterMap (projGet name))).isEmpty (acc ++ renderList (xs.filterMap (projGet name)))) := by
  intro xs
  induction xs with
  | nil => intro acc _ _; simp [renderList, selectList]
  | cons x xs ih =>
    intro acc hg hk
    obtain ⟨v, hp, hi, hsk⟩ := identDo_hasKey name x (hg x List.mem_cons_self) (hk x List.mem_cons_self)
    simp only [renderList, List.filterMap_cons, hp]
    unfold selectList
    rw [hi]
    simp only [hsk]
    rw [ih (acc ++ [render v]) (fun y hy => hg y (List.mem_cons_of_mem _ hy)) (fun y hy => hk y (List.mem_cons_of_mem _ hy))]
    simp [List.append_assoc]

/-- stepping the key across the list = selecting it element by element -/
theorem projection_eq_select (name : Bytes) (x : Doc) (xs : List Doc)
    (hg : ∀ y ∈ x :: xs, Good y) (hk : ∀ y ∈ x :: xs, HasScalarKey name y) :
    identDo name (render (.arr (x :: xs))) = selectOn (render (.arr (x :: xs))) (identDo name) := by
  have hsel : selectOn (render (.arr (x :: xs))) (identDo name) = selectList (identDo name) (renderList (x :: xs)) [] := by
    simp only [render]
    exact selectOn_slice true false _ _
  rw [hsel, selectList_key name (x :: xs) [] hg hk, identDo_arr name (x :: xs) hg]
  obtain ⟨ks, vs, v, hx, hs, _⟩ := hk x List.mem_cons_self
  have hp : projGet name x = some v := by rw [hx]; exact hs
  have hh : headOk x = true := by rw [hx]; rfl
  simp only [hh, if_true, List.filterMap_cons, hp, List.nil_append]
  simp [render, renderList]

/-- so an aggregate (any function) over the stepped key equals the aggregate over the selected values -/
theorem aggregate_projection_eq_select (name : Bytes) (x : Doc) (xs : List Doc) (F : Out → Out)
    (hg : ∀ y ∈ x :: xs, Good y) (hk : ∀ y ∈ x :: xs, HasScalarKey name y) :
    F (identDo name (render (.arr (x :: xs)))) = F (selectOn (render (.arr (x :: xs))) (identDo name)) := by
  rw [projection_eq_select name x xs hg hk]

/-- non-vacuity: [{k:1},{k:2}] -/
example : HasScalarKey [107] (.obj [[107]] [.num ⟨1, 0⟩]) := ⟨[[107]], [.num ⟨1, 0⟩], .num ⟨1, 0⟩, rfl, by simp [specGet, equalFold_refl], by intro ys h; cases h⟩

#print axioms projection_eq_select
#print axioms aggregate_projection_eq_select
#print axioms selectList_key
end L2
end Mp
