import Mp.CueProofs
/-! C13 / C14 — the validator's path loop with ELEMENT steps: after `First()`, `Last()` or `Index(i)` on a typed list the loop goes
    on with the element type (Array becomes Single, the schema position stays where it is), and the next key is resolved from the
    root through the list into the element (`stepKey` on a list looks the key up in the element type). The theorem says the loop
    computes the plain recursive walk `specWalkS`; for key-only paths it is `validate_walk`. Core-only. -/
namespace Mp

/-- on key-only paths it is the loop of `Mp.validateKeys` -/
theorem validateSteps_keys (root : CTy) (blocked : List String) : ∀ (ks p : List String) (cur : Option (String × String)) (first : Bool),
    validateSteps root blocked (ks.map .key) p cur first = validateKeys root blocked ks p cur first := by
  intro ks
  induction ks with
  | nil =>
    intro p cur first
    simp only [List.map_nil]
    unfold validateSteps validateKeys
    cases cur with
    | none => rfl
    | some ti => rfl
  | cons k ks ih =>
    intro p cur first
    simp only [List.map_cons]
    unfold validateSteps validateKeys
    simp only [ih]
    all_goals
      (cases cur with
       | none => rfl
       | some ti => obtain ⟨t, io⟩ := ti; rfl)

/-- the specification: walk the schema one step at a time; `e` = the position is an element of the list `v` -/
def specWalkS : CTy → Bool → List Step → VRes
  | v, e, [] => match kindOf v with
    | some (t, io) => .acc t (if e then "Single" else io)
    | none => .rej "other"
  | v, e, .elem :: ss => match kindOf v with
    | some (_, io) => if io == "Array" && !e then specWalkS v true ss else .rej "other"
    | none => .rej "other"
  | v, e, .cond k :: ss => match kindOf v with
    | some (_, io) =>
      if io == "Array" && !e then
        (match stepKey v k with
         | none => .rej "notfound"
         | some w => match kindOf w with
           | none => .rej "other"
           | some _ => specWalkS v false ss)
      else .rej "other"
    | none => .rej "other"
  | v, e, .key k :: ss =>
    match kindOf v with
    | none => .rej "other"
    | some (t, io) =>
      let io' := if e then "Single" else io
      if io' == "Single" && isPrimitive t then .rej "primitive"
      else if io' == "Array" then .rej "array"
      else match stepKey v k with
        | none => .rej "notfound"
        | some w => specWalkS w false ss

theorem str_single_ne_array : ("Single" == "Array") = false := by decide
theorem str_array_ne_single : ("Array" == "Single") = false := by decide

/-- **the loop with element steps computes the recursive walk** -/
theorem validate_walk_steps (root : CTy) : ∀ (ss : List Step) (p : List String) (w : CTy) (t io : String) (e : Bool),
    findValueAtPath root p = some w → kindOf w = some (t, io) → (e = true → io = "Array") →
    validateSteps root [] ss p (some (t, if e then "Single" else io)) false = specWalkS w e ss := by
  intro ss
  induction ss with
  | nil =>
    intro p w t io e _ hk _
    simp [validateSteps, specWalkS, hk]
  | cons s ss ih =>
    intro p w t io e hp hk he
    cases s with
    | elem =>
      unfold validateSteps specWalkS
      simp only [hk]
      cases e with
      | true =>
        have hio := he rfl
        subst hio
        simp
      | false =>
        simp only [Bool.false_eq_true, if_false, Bool.not_false, Bool.and_true]
        rcases kindOf_io w t io hk with hio | hio
        · subst hio; simp [str_single_ne_array]
        · subst hio
          simp only [beq_self_eq_true, if_true]
          have := ih p w t "Array" true hp hk (fun _ => rfl)
          simpa using this
    | cond k =>
      unfold validateSteps specWalkS
      simp only [hk]
      cases e with
      | true =>
        have hio := he rfl
        subst hio
        simp
      | false =>
        simp only [Bool.false_eq_true, if_false, Bool.not_false, Bool.and_true]
        rcases kindOf_io w t io hk with hio | hio
        · subst hio; simp [str_single_ne_array]
        · subst hio
          simp only [beq_self_eq_true, if_true]
          rw [fvp_snoc, hp]
          simp only [Option.bind_some]
          cases hs : stepKey w k with
          | none => rfl
          | some w' =>
            simp only []
            cases hk' : kindOf w' with
            | none => rfl
            | some ti =>
              simp only []
              have := ih p w t "Array" false hp hk (by intro h; cases h)
              simpa using this
    | key k =>
      unfold validateSteps specWalkS
      simp only [hk]
      -- the io the loop carries
      have hcur : (if e = true then "Single" else io) = "Single" ∨ (if e = true then "Single" else io) = "Array" := by
        cases e with
        | true => exact Or.inl (by simp)
        | false => simpa using kindOf_io w t io hk
      rcases hcur with hc | hc
      · rw [hc]
        by_cases hprim : isPrimitive t = true
        · simp [hprim]
        · have hprim' : isPrimitive t = false := by simpa using hprim
          simp only [hprim', Bool.false_eq_true, if_false, Bool.and_false, beq_self_eq_true, Bool.true_and]
          simp only [List.contains_nil, Bool.and_false, Bool.false_eq_true, if_false, str_single_ne_array]
          rw [fvp_snoc, hp]
          simp only [Option.bind_some]
          cases hs : stepKey w k with
          | none => rfl
          | some w' =>
            simp only []
            cases hk' : kindOf w' with
            | none => cases ss with
              | nil => simp [specWalkS, hk']
              | cons s' ss' => cases s' <;> simp [specWalkS, hk']
            | some ti =>
              obtain ⟨t', io'⟩ := ti
              have := ih (p ++ [k]) w' t' io' false (by rw [fvp_snoc, hp]; simp [hs]) hk' (by intro h; cases h)
              simpa using this
      · rw [hc]
        simp [str_array_ne_single]

/-- for key-only paths this is `validate_walk` -/
theorem specWalkS_keys : ∀ (ks : List String) (v : CTy), specWalkS v false (ks.map .key) = specWalk v ks := by
  intro ks
  induction ks with
  | nil => intro v; simp [specWalkS, specWalk]; cases kindOf v with
    | none => rfl
    | some ti => rfl
  | cons k ks ih =>
    intro v
    simp only [List.map_cons]
    unfold specWalkS specWalk
    cases kindOf v with
    | none => rfl
    | some ti =>
      obtain ⟨t, io⟩ := ti
      simp only [Bool.false_eq_true, if_false]
      cases stepKey v k with
      | none => rfl
      | some w => simp only [ih]

/-- after `First()` on a list of structs, a declared field of the element is accepted with its own kind, an undeclared one (of a
    closed element struct) is rejected -/
example : specWalkS (.struct false [.mk "objs" .reg false false (.list true (.struct false [.mk "name" .reg false false (.prim "string")]))]) false
    [.key "objs", .elem, .key "name"] = .acc "String" "Single" := by decide
example : specWalkS (.struct false [.mk "objs" .reg false false (.list true (.struct false [.mk "name" .reg false false (.prim "string")]))]) false
    [.key "objs", .elem, .key "nosuch"] = .rej "notfound" := by decide
example : specWalkS (.struct false [.mk "objs" .reg false false (.list true (.struct false [.mk "name" .reg false false (.prim "string")]))]) false
    [.key "objs", .key "name"] = .rej "array" := by decide

/-- **C15 / C13: only the FIRST key of a path is ever compared with the blocked root fields** - once a key has been taken (`first =
    false`) the list of blocked fields plays no part in the rest of the walk, whatever steps follow (keys, element functions, filters
    on an element key): a field below the root that happens to be named like a blocked step is a field like any other -/
theorem blocked_only_first_key (root : CTy) (b1 b2 : List String) : ∀ (ss : List Step) (p : List String) (cur : Option (String × String)),
    validateSteps root b1 ss p cur false = validateSteps root b2 ss p cur false := by
  intro ss
  induction ss with
  | nil => intro p cur; unfold validateSteps; rfl
  | cons s ss ih =>
    intro p cur
    cases s with
    | elem =>
      unfold validateSteps
      split
      · exact ih _ _
      · rfl
    | cond k =>
      unfold validateSteps
      split
      · split
        · rfl
        · split
          · rfl
          · exact ih _ _
      · rfl
    | key k =>
      unfold validateSteps
      simp only [Bool.false_and, Bool.false_eq_true, if_false]
      split
      · rfl
      · split
        · rfl
        · split
          · rfl
          · exact ih _ _

/-- … and the first key is rejected exactly when it is blocked (given that it is a key of the root at all) -/
theorem first_key_blocked (root : CTy) (b : List String) (k : String) (ss : List Step) (h : b.contains k = true) :
    validateSteps root b (.key k :: ss) [] none true = .rej "blocked" := by
  unfold validateSteps
  have hm : k ∈ b := by simpa using h
  simp [hm]

#print axioms blocked_only_first_key
#print axioms first_key_blocked
#print axioms validate_walk_steps
#print axioms validateSteps_keys
#print axioms specWalkS_keys
end Mp
