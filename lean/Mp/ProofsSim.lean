import Mp.EvalS
/-! Prototype: C10 (first fragment) — values that differ only in their Go carrier normalise to the same value, hence
    every function gives the same outcome on them. Core-only. -/
namespace Mp

/-- same logical content, different carrier: integer kind and width, named types, one pointer, typed or untyped slice,
    array instead of slice -/
inductive Sim : GoVal → GoVal → Prop
  | nil : Sim .nil .nil
  | bool (n n' : Bool) (b : Bool) : Sim (.bool n b) (.bool n' b)
  | str (n n' : Bool) (s : Bytes) : Sim (.str n s) (.str n' s)
  | int (k k' : NumKind) (n n' : Bool) (v : Int) : Sim (.int k n v) (.int k' n' v)
  | intDec (k : NumKind) (n : Bool) (v : Int) : Sim (.int k n v) (.dec ⟨v, 0⟩)
  | decInt (k : NumKind) (n : Bool) (v : Int) : Sim (.dec ⟨v, 0⟩) (.int k n v)
  | dec (d : Dec) : Sim (.dec d) (.dec d)
  | ptrInt (k k' : NumKind) (n n' : Bool) (v : Int) : Sim (.ptr false (.int k n v)) (.int k' n' v)
  | intPtr (k k' : NumKind) (n n' : Bool) (v : Int) : Sim (.int k n v) (.ptr false (.int k' n' v))
  | ptrStr (n n' : Bool) (s : Bytes) : Sim (.ptr false (.str n s)) (.str n' s)
  | ptrBool (n n' : Bool) (b : Bool) : Sim (.ptr false (.bool n b)) (.bool n' b)
  | nilSlice : Sim .nil .nil
  | sliceNil (ei ei' : Bool) : Sim (.slice ei false []) (.slice ei' false [])
  | sliceCons (ei ei' : Bool) (x y : GoVal) (xs ys : List GoVal) :
      Sim x y → Sim (.slice ei false xs) (.slice ei' false ys) → Sim (.slice ei false (x :: xs)) (.slice ei' false (y :: ys))
  | arraySlice (ei ei' : Bool) (xs ys : List GoVal) : Sim (.slice ei false xs) (.slice ei' false ys) →
      Sim (.array ei xs) (.slice ei' false ys)
  | sliceArray (ei ei' : Bool) (xs ys : List GoVal) : Sim (.slice ei false xs) (.slice ei' false ys) →
      Sim (.slice ei false xs) (.array ei' ys)

theorem norm_int (k n v) : normalizeValue (.int k n v) = .dec ⟨v, 0⟩ := by simp [normalizeValue]
theorem norm_slice (ei xs) : normalizeValue (.slice ei false xs) = .slice true false (normalizeList xs) := by
  simp [normalizeValue]
theorem norm_array (ei xs) : normalizeValue (.array ei xs) = .slice true false (normalizeList xs) := by
  simp [normalizeValue]

/-- C10: carriers are erased by normalisation -/
theorem sim_normalize : ∀ {v w : GoVal}, Sim v w → normalizeValue v = normalizeValue w := by
  intro v w h
  induction h with
  | nil => rfl
  | bool n n' b => simp [normalizeValue]
  | str n n' s => simp [normalizeValue]
  | int k k' n n' v => simp [normalizeValue]
  | intDec k n v => simp [normalizeValue]
  | decInt k n v => simp [normalizeValue]
  | dec d => rfl
  | ptrInt k k' n n' v => simp [normalizeValue]
  | intPtr k k' n n' v => simp [normalizeValue]
  | ptrStr n n' s => simp [normalizeValue]
  | ptrBool n n' b => simp [normalizeValue]
  | nilSlice => rfl
  | sliceNil ei ei' => simp [normalizeValue, normalizeList]
  | sliceCons ei ei' x y xs ys _ _ ih1 ih2 =>
    rw [norm_slice, norm_slice] at ih2 ⊢
    simp only [normalizeList, ih1]
    have : normalizeList xs = normalizeList ys := by
      simpa using ih2
    rw [this]
  | arraySlice ei ei' xs ys _ ih => rw [norm_array]; rw [norm_slice] at ih; exact ih
  | sliceArray ei ei' xs ys _ ih => rw [norm_array]; rw [norm_slice] at ih ⊢; exact ih

/-- hence every modelled function gives the same outcome whatever carrier the receiver arrived in -/
theorem func_carrier_independent (nm : String) (ps : List Prm) {v w : GoVal} (h : Sim v w) :
    pureFunc nm ps (toDecimalIfNumber (normalizeValue v)) = pureFunc nm ps (toDecimalIfNumber (normalizeValue w)) := by
  rw [sim_normalize h]

example : Sim (.slice false false [.int .int8 true 3, .int .int8 true 4]) (.array true [.dec ⟨3, 0⟩, .ptr false (.int .uint64 false 4)]) :=
  .sliceArray _ _ _ _ (.sliceCons _ _ _ _ _ _ (.intDec _ _ _) (.sliceCons _ _ _ _ _ _ (.intPtr _ _ _ _ _) (.sliceNil _ _)))

#print axioms func_carrier_independent
end Mp
