import Mp.Print
/-! Prototype: shopspring/decimal v1.3.1 operations used by mpath, on Dec = coef × 10^exp. Core-only. -/
namespace Mp
namespace Dec

def zero : Dec := ⟨0, 1⟩   -- decimal.Zero = New(0, 1)

def rescale (d : Dec) (e : Int) : Dec :=
  if d.exp == e then d
  else if e > d.exp then ⟨Int.tdiv d.coef (10 ^ (e - d.exp).toNat), e⟩
  else ⟨d.coef * 10 ^ (d.exp - e).toNat, e⟩

def rescalePair (a b : Dec) : Dec × Dec :=
  if a.exp == b.exp then (a, b)
  else
    let base := if a.exp ≥ b.exp then b.exp else a.exp
    if base != a.exp then (a.rescale base, b) else (a, b.rescale base)

def add (a b : Dec) : Dec := let (x, y) := rescalePair a b; ⟨x.coef + y.coef, x.exp⟩
def sub (a b : Dec) : Dec := let (x, y) := rescalePair a b; ⟨x.coef - y.coef, x.exp⟩
def mul (a b : Dec) : Dec := ⟨a.coef * b.coef, a.exp + b.exp⟩
def neg (a : Dec) : Dec := ⟨-a.coef, a.exp⟩
def abs (a : Dec) : Dec := ⟨a.coef.natAbs, a.exp⟩

def cmp (a b : Dec) : Ordering :=
  let (x, y) := rescalePair a b
  compare x.coef y.coef

def isZero (a : Dec) : Bool := a.coef == 0
def isNegative (a : Dec) : Bool := a.coef < 0

/-- QuoRem(d, d2, precision); d2 ≠ 0 -/
def quoRem (d d2 : Dec) (prec : Int) : Dec × Dec :=
  let scale := -prec
  let e := d.exp - d2.exp - scale
  let (aa, bb, scalerest) : Int × Int × Int :=
    if e < 0 then (d.coef, d2.coef * 10 ^ (-e).toNat, d.exp)
    else (d.coef * 10 ^ e.toNat, d2.coef, scale + d2.exp)
  let q := Int.tdiv aa bb
  let r := Int.tmod aa bb
  (⟨q, scale⟩, ⟨r, scalerest⟩)

def sign (x : Int) : Int := if x < 0 then -1 else if x > 0 then 1 else 0

def divRound (d d2 : Dec) (prec : Int) : Dec :=
  let (q, r) := quoRem d d2 prec
  let r2 : Dec := ⟨(r.coef.natAbs : Int) * 2, r.exp + prec⟩
  match cmp r2 d2.abs with
  | .lt => q
  | _ =>
    if sign d.coef * sign d2.coef < 0 then q.sub ⟨1, -prec⟩ else q.add ⟨1, -prec⟩

def div (a b : Dec) : Dec := divRound a b 16

def truncate (d : Dec) (prec : Int) : Dec :=
  if prec ≥ 0 && -prec > d.exp then d.rescale (-prec) else d

/-- funcs.go func_Modulo: the remainder of `QuoRem(b, 0)` (exact; `Decimal.Mod`, which rounds the quotient first, is no longer used) -/
def mod (a b : Dec) : Dec := (quoRem a b 0).2

def isInteger (d : Dec) : Bool :=
  if d.exp ≥ 0 then true else Int.tmod d.coef (10 ^ (-d.exp).toNat) == 0

/-- big.Int.Int64() of rescale(0) -/
def intPart (d : Dec) : Int :=
  let x := (d.rescale 0).coef
  let m : Nat := x.natAbs % (2 ^ 64)
  let v : Int := if m ≥ 2 ^ 63 then (m : Int) - 2 ^ 64 else m
  if x < 0 then (if v == -(2 ^ 63) then v else -v) else v

def ofNat (n : Nat) : Dec := ⟨n, 0⟩

def sumL : Dec → List Dec → Dec
  | acc, [] => acc
  | acc, x :: xs => sumL (acc.add x) xs

def minL : Dec → List Dec → Dec
  | acc, [] => acc
  | acc, x :: xs => minL (if cmp x acc == .lt then x else acc) xs

def maxL : Dec → List Dec → Dec
  | acc, [] => acc
  | acc, x :: xs => maxL (if cmp x acc == .gt then x else acc) xs

def avgL (first : Dec) (rest : List Dec) : Dec := (sumL first rest).div (ofNat (rest.length + 1))

/-- strconv.ParseInt(s, 10, bits-irrelevant) syntax: optional sign, ≥1 decimal digits, nothing else -/
def parseIntDigits (s : Bytes) : Option Int :=
  let (neg, body) := match s with
    | 43 :: t => (false, t)
    | 45 :: t => (true, t)
    | _ => (false, s)
  if body.isEmpty || !(body.all fun c => 48 ≤ c.toNat && c.toNat ≤ 57) then none
  else
    let n : Nat := body.foldl (fun (a : Nat) c => a * 10 + (c.toNat - 48)) 0
    some (if neg then -(n : Int) else n)

def indexAny (s : Bytes) (p : UInt8 → Bool) : Option Nat :=
  let rec go (l : Bytes) (i : Nat) : Option Nat :=
    match l with
    | [] => none
    | c :: t => if p c then some i else go t (i + 1)
  go s 0

/-- decimal.NewFromString -/
def ofString (value : Bytes) : Option Dec :=
  let (value, exp0) : Bytes × Option Int :=
    match indexAny value (fun c => c == 69 || c == 101) with
    | some i =>
      match parseIntDigits (value.drop (i + 1)) with
      | some e => if e < -(2 ^ 31) || e > 2 ^ 31 - 1 then (value, none) else (value.take i, some e)
      | none => (value, none)
    | none => (value, some 0)
  match exp0 with
  | none => none
  | some exp0 =>
    let dots := value.filter (· == 46)
    if dots.length > 1 then none else
    let (intString, exp) : Bytes × Int :=
      match indexAny value (· == 46) with
      | none => (value, exp0)
      | some p =>
        let frac := value.drop (p + 1)
        (value.take p ++ frac, exp0 - frac.length)
    match parseIntDigits intString with
    | none => none
    | some c => if exp < -(2 ^ 31) || exp > 2 ^ 31 - 1 then none else some ⟨c, exp⟩

end Dec
end Mp
