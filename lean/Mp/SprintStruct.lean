import Mp.Print
/-! C09 — Sprint is a function of the STRUCTURE of an operation alone: the text the user typed (the `userString` the parser
    records in every node) plays no part in it, at any depth - also not inside arguments that are paths or groups, which is where
    the printed text used to be taken from `UserString()` (and where `Equal(1 2)` came out as `Equal(12)`). Hence two operations
    of the same structure print identically, and the "Sprint is a fixed point" clause of the property follows from the "same
    structure" clause. Mutual structural induction over the AST. Core-only. -/
namespace Mp

mutual
/-- the operation with every recorded user text erased -/
def erPath : PathOp → PathOp
  | .mk i r f m ops _ => .mk i r f m (erParts ops) []
def erParts : List PathPart → List PathPart
  | [] => []
  | p :: ps => erPart p :: erParts ps
def erPart : PathPart → PathPart
  | .ident n p _ => .ident n p []
  | .filter lo _ => .filter (erLogic lo) []
  | .func i n ps _ => .func i n (erParams ps) []
def erParams : List Param → List Param
  | [] => []
  | p :: ps => erParam p :: erParams ps
def erParam : Param → Param
  | .num d => .num d
  | .str s => .str s
  | .bool b => .bool b
  | .path p => .path (erPath p)
  | .logic l => .logic (erLogic l)
def erLogic : LogicOp → LogicOp
  | .mk i f ty ops _ => .mk i f ty (erLParts ops) []
def erLParts : List LogicPart → List LogicPart
  | [] => []
  | p :: ps => erLPart p :: erLParts ps
def erLPart : LogicPart → LogicPart
  | .path p => .path (erPath p)
  | .logic l => .logic (erLogic l)
end

mutual
theorem sprint_erPath (d : Nat) (p : PathOp) : sprintPath d (erPath p) = sprintPath d p := by
  cases p with
  | mk i r f m ops us => unfold erPath sprintPath; rw [sprint_erParts d ops]
termination_by structural p
theorem sprint_erParts (d : Nat) (ps : List PathPart) : sprintParts d (erParts ps) = sprintParts d ps := by
  cases ps with
  | nil => rfl
  | cons p ps => unfold erParts sprintParts; rw [sprint_erPart d p, sprint_erParts d ps]
termination_by structural ps
theorem sprint_erPart (d : Nat) (p : PathPart) : sprintPart d (erPart p) = sprintPart d p := by
  cases p with
  | ident n pr us => unfold erPart sprintPart; rfl
  | filter lo us => unfold erPart sprintPart; exact sprint_erLogic d lo
  | func i n ps us => unfold erPart sprintPart; rw [sprint_erParams ps]
termination_by structural p
theorem sprint_erParams (ps : List Param) : sprintParams (erParams ps) = sprintParams ps := by
  cases ps with
  | nil => rfl
  | cons p ps =>
    cases ps with
    | nil =>
      have e : erParams [p] = [erParam p] := by simp only [erParams]
      rw [e]
      simp only [sprintParams]
      exact sprint_erParam p
    | cons q qs =>
      have ih := sprint_erParams (q :: qs)
      have e1 : erParams (p :: q :: qs) = erParam p :: erParams (q :: qs) := by simp only [erParams]
      have e2 : erParams (q :: qs) = erParam q :: erParams qs := by simp only [erParams]
      rw [e1]
      rw [e2] at ih ⊢
      simp only [sprintParams] at ih ⊢
      rw [sprint_erParam p, ih]
termination_by structural ps
theorem sprint_erParam (p : Param) : sprintParam (erParam p) = sprintParam p := by
  cases p with
  | num d => rfl
  | str s => rfl
  | bool b => rfl
  | path q => unfold erParam sprintParam; exact sprint_erPath 0 q
  | logic l => unfold erParam sprintParam; exact sprint_erLogic 0 l
termination_by structural p
theorem sprint_erLogic (d : Nat) (l : LogicOp) : sprintLogic d (erLogic l) = sprintLogic d l := by
  cases l with
  | mk i f ty ops us => unfold erLogic sprintLogic; rw [sprint_erLParts d ops]
termination_by structural l
theorem sprint_erLParts (d : Nat) (ps : List LogicPart) : sprintLogicParts d (erLParts ps) = sprintLogicParts d ps := by
  cases ps with
  | nil => rfl
  | cons p ps =>
    cases ps with
    | nil =>
      have e : erLParts [p] = [erLPart p] := by simp only [erLParts]
      rw [e]
      simp only [sprintLogicParts]
      rw [sprint_erLPart (d + 1) p]
    | cons q qs =>
      have ih := sprint_erLParts d (q :: qs)
      have e1 : erLParts (p :: q :: qs) = erLPart p :: erLParts (q :: qs) := by simp only [erLParts]
      have e2 : erLParts (q :: qs) = erLPart q :: erLParts qs := by simp only [erLParts]
      rw [e1]
      rw [e2] at ih ⊢
      simp only [sprintLogicParts] at ih ⊢
      rw [sprint_erLPart (d + 1) p, ih]
termination_by structural ps
theorem sprint_erLPart (d : Nat) (p : LogicPart) : sprintLogicPart d (erLPart p) = sprintLogicPart d p := by
  cases p with
  | path q => unfold erLPart sprintLogicPart; exact sprint_erPath d q
  | logic l => unfold erLPart sprintLogicPart; exact sprint_erLogic d l
termination_by structural p
end

/-- **C09**: operations of the same structure print identically, whatever was typed to obtain them -/
theorem sprint_of_same_structure (d : Nat) (p q : PathOp) (h : erPath p = erPath q) : sprintPath d p = sprintPath d q := by
  rw [← sprint_erPath d p, ← sprint_erPath d q, h]

theorem sprintLogic_of_same_structure (d : Nat) (l m : LogicOp) (h : erLogic l = erLogic m) : sprintLogic d l = sprintLogic d m := by
  rw [← sprint_erLogic d l, ← sprint_erLogic d m, h]

#print axioms sprint_erPath
#print axioms sprint_of_same_structure
#print axioms sprintLogic_of_same_structure
end Mp
