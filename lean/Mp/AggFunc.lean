import Mp.AggProofs
import Mp.EvalS
/-! C04 — the aggregate FUNCTIONS of the evaluator model applied to a list of decimals are the folds proved in AggProofs. -/
namespace Mp

theorem collect_gen (g : Option (List Dec) → GoVal → Option (List Dec)) (hg : ∀ l d, g (some l) (GoVal.dec d) = some (l ++ [d])) :
    ∀ (ds : List Dec) (init : List Dec), (ds.map GoVal.dec).foldl g (some init) = some (init ++ ds) := by
  intro ds
  induction ds with
  | nil => intro init; simp
  | cons d ds ih => intro init; simp only [List.map_cons, List.foldl_cons, hg]; rw [ih]; simp only [List.append_assoc, List.singleton_append]

/-- an aggregate over a non-empty `[]any` of decimals with no further arguments is the fold over the elements -/
theorem decimalSlice_decs (f : Dec → List Dec → Dec) (d : Dec) (rest : List Dec) :
    decimalSlice [] (.slice true false ((d :: rest).map GoVal.dec)) f = okDec (match rest with | [] => d | _ => f d rest) := by
  unfold decimalSlice
  simp only [prmNumbers, prmStrings, List.filterMap_nil, List.append_nil, List.nil_append]
  rw [collect_gen _ (fun l d => rfl) (d :: rest) []]
  cases rest <;> simp

theorem sum_spec (d : Dec) (rest : List Dec) :
    ∃ r, pureFunc "Sum" [] (.slice true false ((d :: rest).map GoVal.dec)) = some (okDec r) ∧
      r.toRat = ((d :: rest).map Dec.toRat).sum := by
  refine ⟨match rest with | [] => d | _ => Dec.sumL d rest, ?_, ?_⟩
  · unfold pureFunc; simp only [decimalSlice_decs]
  · cases rest with
    | nil => simp
    | cons x xs => simp only [Dec.sumL_toRat]; simp

theorem minimum_spec (d : Dec) (rest : List Dec) :
    ∃ r, pureFunc "Minimum" [] (.slice true false ((d :: rest).map GoVal.dec)) = some (okDec r) ∧
      r ∈ d :: rest ∧ ∀ y ∈ d :: rest, r.toRat ≤ y.toRat := by
  refine ⟨match rest with | [] => d | _ => Dec.minL d rest, ?_, ?_⟩
  · unfold pureFunc; simp only [decimalSlice_decs]
  · cases rest with
    | nil => simp
    | cons x xs => exact ⟨(Dec.minL_spec (x :: xs) d).2, (Dec.minL_spec (x :: xs) d).1⟩

theorem maximum_spec (d : Dec) (rest : List Dec) :
    ∃ r, pureFunc "Maximum" [] (.slice true false ((d :: rest).map GoVal.dec)) = some (okDec r) ∧
      r ∈ d :: rest ∧ ∀ y ∈ d :: rest, y.toRat ≤ r.toRat := by
  refine ⟨match rest with | [] => d | _ => Dec.maxL d rest, ?_, ?_⟩
  · unfold pureFunc; simp only [decimalSlice_decs]
  · cases rest with
    | nil => simp
    | cons x xs => exact ⟨(Dec.maxL_spec (x :: xs) d).2, (Dec.maxL_spec (x :: xs) d).1⟩

theorem average_spec (d x : Dec) (rest : List Dec) :
    ∃ r, pureFunc "Average" [] (.slice true false ((d :: x :: rest).map GoVal.dec)) = some (okDec r) ∧
      |r.toRat - ((d :: x :: rest).map Dec.toRat).sum / (((d :: x :: rest).length : Nat) : ℚ)| ≤ 1 / 2 * (10 : ℚ) ^ (-16 : Int) := by
  refine ⟨Dec.avgL d (x :: rest), ?_, ?_⟩
  · unfold pureFunc; simp only [decimalSlice_decs]
  · have := Dec.avgL_bound d (x :: rest)
    simpa using this

/-- the binary functions on a decimal receiver: the model applies the proved operation -/
theorem add_func (a b : Dec) : pureFunc "Add" [.num b] (.dec a) = some (okDec (a.add b)) := by
  unfold pureFunc; simp [firstOfNumber, prmNumbers]
theorem subtract_func (a b : Dec) : pureFunc "Subtract" [.num b] (.dec a) = some (okDec (a.sub b)) := by
  unfold pureFunc; simp [firstOfNumber, prmNumbers]
theorem multiply_func (a b : Dec) (h : inI32 (a.exp + b.exp) = true) : pureFunc "Multiply" [.num b] (.dec a) = some (okDec (a.mul b)) := by
  unfold pureFunc; simp [firstOfNumber, prmNumbers, h]
/-- a product whose exponent does not fit the 32 bits of the decimal type is an error (not a panic, not a wrong number) -/
theorem multiply_out_of_range (a b : Dec) (h : inI32 (a.exp + b.exp) = false) : pureFunc "Multiply" [.num b] (.dec a) = some .err := by
  unfold pureFunc; simp [firstOfNumber, prmNumbers, h]
example : inI32 ((⟨15, -1⟩ : Dec).exp + (⟨2, 3⟩ : Dec).exp) = true := by decide
theorem divide_func (a b : Dec) (h : b.coef ≠ 0) : pureFunc "Divide" [.num b] (.dec a) = some (okDec (a.div b)) := by
  unfold pureFunc; simp [firstOfNumber, prmNumbers, Dec.isZero, h]
theorem modulo_func (a b : Dec) (h : b.coef ≠ 0) : pureFunc "Modulo" [.num b] (.dec a) = some (okDec (a.mod b)) := by
  unfold pureFunc; simp [firstOfNumber, prmNumbers, Dec.isZero, h]
theorem divide_by_zero (a b : Dec) (h : b.coef = 0) : pureFunc "Divide" [.num b] (.dec a) = some .err := by
  unfold pureFunc; simp [firstOfNumber, prmNumbers, Dec.isZero, h]
theorem modulo_by_zero (a b : Dec) (h : b.coef = 0) : pureFunc "Modulo" [.num b] (.dec a) = some .err := by
  unfold pureFunc; simp [firstOfNumber, prmNumbers, Dec.isZero, h]

/-- no binary floating-point error: 0.1 + 0.2 is exactly 0.3 -/
example : ((⟨1, -1⟩ : Dec).add ⟨2, -1⟩).toRat = 3 / 10 := by
  rw [Dec.add_toRat]; simp [Dec.toRat]; norm_num

#print axioms sum_spec
#print axioms minimum_spec
#print axioms maximum_spec
#print axioms average_spec
#print axioms add_func
#print axioms divide_func
#print axioms modulo_func
#print axioms divide_by_zero
end Mp
