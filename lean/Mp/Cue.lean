/-! Prototype: mpath's CueValidate for key-only paths over a generated CUE schema subset, plus the
    blocked-root-field computation (repaired: work list + visited set). Core-only. -/
namespace Mp

inductive Mark | reg | opt | req
deriving Repr, DecidableEq, Inhabited

mutual
inductive CTy where
  | prim (k : String)                       -- string bytes bool int float number top
  | list (isOpen : Bool) (e : CTy)
  | struct (isOpen : Bool) (fs : List CField)
  | deplist (v : List String)
inductive CField where
  | mk (name : String) (mark : Mark) (hidden quoted : Bool) (ty : CTy)
end

instance : Inhabited CTy := ⟨.prim "top"⟩

def CField.name : CField → String | .mk n _ _ _ _ => n
def CField.ty : CField → CTy | .mk _ _ _ _ t => t
def CField.hidden : CField → Bool | .mk _ _ h _ _ => h
def CField.isReg : CField → Bool | .mk _ .reg _ _ _ => true | _ => false

inductive VRes where
  | acc (ty io : String)
  | rej (cls : String)
  | err
deriving Repr, DecidableEq

/-- looking a key up in a struct: the regular selector, then the optional one (getSelectorForField + LookupPath) -/
def stepStruct (isOpen : Bool) (fs : List CField) (key : String) : Option CTy :=
  let wantsHidden := key.startsWith "_" && !key.contains '-'
  -- a hidden field is only reachable through cue.Hid; a quoted "_x" is a regular field
  let hit := fs.find? fun f =>
    f.name == key && (if f.hidden then wantsHidden && f.isReg else true)   -- `_k?` / `_k!` are not found (observed)
  match hit with
  | some f => some f.ty
  | none => if isOpen then some (.prim "top") else none

/-- one step of findValueAtPath -/
def stepKey (v : CTy) (key : String) : Option CTy :=
  match v with
  | .prim "top" => some (.prim "top")
  | .struct isOpen fs => stepStruct isOpen fs key
  -- a key applied to a list `[...T]` or `[T]` names a field of the element type T (cue.AnyIndex or the first element, then the
  -- key in the element)
  | .list _ (.prim "top") => some (.prim "top")
  | .list _ (.struct isOpen fs) => stepStruct isOpen fs key
  | _ => none

def findValueAtPath : CTy → List String → Option CTy
  | v, [] => some v
  | v, k :: ks =>
    match v with
    | .prim "top" => some (.prim "top")       -- early return: the rest of the path is ignored
    | _ => match stepKey v k with
      | some v' => findValueAtPath v' ks
      | none => none

def primKind (k : String) : Option String :=
  match k with
  | "bool" => some "Boolean"
  | "string" | "bytes" => some "String"
  | "int" | "float" | "number" => some "Number"
  | "top" => some "Any"
  | _ => none

/-- opPathIdent.Validate's kind switch -/
def kindOf (v : CTy) : Option (String × String) :=
  match v with
  | .prim k => (primKind k).map (·, "Single")
  | .struct .. => some ("Object", "Single")
  | .deplist _ => some ("String", "Array")
  | .list _ e =>
    match e with
    | .prim k => (primKind k).map (·, "Array")
    | .struct .. => some ("Object", "Array")
    | .list .. => some ("Any", "Single")
    | .deplist _ => some ("Any", "Single")

def isPrimitive (t : String) : Bool := t == "String" || t == "Boolean" || t == "Number"

/-- opPath.Validate restricted to identifier operations -/
def validateKeys (root : CTy) (blocked : List String) : List String → List String → Option (String × String) → Bool → VRes
  | [], _, cur, _ => match cur with
    | some (t, io) => .acc t io
    | none => .acc "Root" "Single"
  | k :: ks, pathSoFar, cur, first =>
    let stop : Option VRes := match cur with
      | some (t, "Single") => if isPrimitive t then some (.rej "primitive") else none
      | some (_, "Array") => some (.rej "array")
      | _ => none
    match stop with
    | some r => r
    | none =>
      if first && blocked.contains k then .rej "blocked" else
      let p := pathSoFar ++ [k]
      match findValueAtPath root p with
      | none => .rej "notfound"
      | some v => match kindOf v with
        | none => .rej "other"
        | some ti => validateKeys root blocked ks p (some ti) false

def baseNames : List String := ["input", "_input", "variables", "_variables", "secrets", "_secrets", "connections", "_connections", "metadata", "_metadata"]

def depsOf (root : CTy) (step : String) : Option (List String) :=
  match findValueAtPath root [step] with
  | some (.struct _ fs) =>
    match fs.find? (fun f => f.name == "_dependencies") with
    | some f => match f.ty with | .deplist v => some v | _ => none
    | none => none
  | _ => none

/-- closure with fuel (the proof-oriented version uses the measure of the earlier prototype) -/
def closure (root : CTy) : Nat → List String → List String → Option (List String)
  | 0, _, _ => none
  | _, [], visited => some visited
  | fuel+1, d :: q, visited =>
    if visited.contains d then closure root fuel q visited else
    match depsOf root d with
    | none => none
    | some nx => closure root fuel (q ++ nx) (d :: visited)

def rootFieldNames (root : CTy) (defNames : List String) : List String :=
  match root with
  | .struct _ fs => (fs.filter (fun f => f.name != "_dependencies")).map (·.name) ++ defNames
  | _ => []

def blockedFields (root : CTy) (defNames : List String) (cp : String) : Option (List String) :=
  if cp == "" then some [] else
  match findValueAtPath root [cp] with
  | none => none
  | some _ =>
    match depsOf root cp with
    | none => none
    | some deps =>
      let total := deps.length + (match root with | .struct _ fs => (fs.map fun f => match f.ty with | .struct _ g => g.length + 8 | _ => 8).foldl (· + ·) 0 | _ => 0) * 8 + 64
      match closure root total deps [] with
      | none => none
      | some reach =>
        let valid := cp :: baseNames ++ deps ++ reach
        let all := rootFieldNames root defNames
        some ((if cp != "input" then [cp] else []) ++ all.filter (fun f => !valid.contains f))

/-- cue.go getAvailableFieldsForValue at the root: every root field except `_dependencies`, by its bare name, that is not blocked -/
def offeredFields (root : CTy) (defNames : List String) (cp : String) : Option (List String) :=
  (blockedFields root defNames cp).map fun bl => (rootFieldNames root defNames).filter (fun f => !bl.contains f)

inductive Step where
  | key (k : String)
  | elem            -- First() / Last() / Index(i): one element of a typed list
  | cond (k : String) -- a filter `[@.k.F()]` whose condition reads the key k of the elements (F a test that every type admits)
deriving Repr, DecidableEq

/-- opPath.Validate restricted to identifier operations and element functions -/
def validateSteps (root : CTy) (blocked : List String) : List Step → List String → Option (String × String) → Bool → VRes
  | [], _, cur, _ => match cur with
    | some (t, io) => .acc t io
    | none => .acc "Root" "Single"
  | .elem :: ss, p, cur, first =>
    match cur with
    | some (t, "Array") => validateSteps root blocked ss p (some (t, "Single")) first
    | _ => .rej "other"
  | .cond k :: ss, p, cur, first =>
    -- the condition's key is a field of the elements (never compared with the blocked ROOT fields); the filter leaves the type of
    -- the collection as it is
    match cur with
    | some (t, "Array") =>
      (match findValueAtPath root (p ++ [k]) with
       | none => .rej "notfound"
       | some v => match kindOf v with
         | none => .rej "other"
         | some _ => validateSteps root blocked ss p (some (t, "Array")) first)
    | _ => .rej "other"
  | .key k :: ss, pathSoFar, cur, first =>
    let stop : Option VRes := match cur with
      | some (t, "Single") => if isPrimitive t then some (.rej "primitive") else none
      | some (_, "Array") => some (.rej "array")
      | _ => none
    match stop with
    | some r => r
    | none =>
      if first && blocked.contains k then .rej "blocked" else
      let p := pathSoFar ++ [k]
      match findValueAtPath root p with
      | none => .rej "notfound"
      | some v => match kindOf v with
        | none => .rej "other"
        | some ti => validateSteps root blocked ss p (some ti) false

def validate (root : CTy) (path : List String) (cp : String) : VRes :=
  match blockedFields root [] cp with
  | none => .err
  | some blocked => validateKeys root blocked path [] none true

/-- a path of keys and element functions (First / Last / Index) -/
def validateS (root : CTy) (steps : List Step) (cp : String) : VRes :=
  match blockedFields root [] cp with
  | none => .err
  | some blocked => validateSteps root blocked steps [] none true

end Mp
