namespace GroupTruth
inductive Mode | and | or
deriving Repr, DecidableEq

inductive Out (α : Type) | ok (v : α) | err (e : String) | panic
deriving Repr

inductive V | null | bool (b : Bool) | num (n : Int) | str (s : String)
deriving Repr, DecidableEq

inductive Expr where
  | leaf (id : Nat)
  | group (m : Mode) (xs : List Expr)

-- leaf evaluation is a parameter (environment)
abbrev Env := Nat → Out V

mutual
def evalExpr (env : Env) : Expr → Out V
  | .leaf i => env i
  | .group m xs => evalGroup env m xs
def evalGroup (env : Env) (m : Mode) : List Expr → Out V
  | [] => match m with | .and => .ok (.bool true) | .or => .ok (.bool false)
  | x :: xs =>
    match evalExpr env x with
    | .err e => .err e
    | .panic => .panic
    | .ok (.bool b) =>
      match m, b with
      | .and, false => .ok (.bool false)
      | .or, true => .ok (.bool true)
      | _, _ => evalGroup env m xs
    | .ok _ => .ok (.bool false)
end

-- spec
mutual
def specExpr (tv : Nat → Bool) : Expr → Bool
  | .leaf i => tv i
  | .group m xs => specGroup tv m xs
def specGroup (tv : Nat → Bool) (m : Mode) : List Expr → Bool
  | [] => match m with | .and => true | .or => false
  | x :: xs => match m with
    | .and => specExpr tv x && specGroup tv .and xs
    | .or => specExpr tv x || specGroup tv .or xs
end

mutual
theorem evalExpr_spec (env : Env) (tv : Nat → Bool) (h : ∀ i, env i = .ok (.bool (tv i))) :
    ∀ e : Expr, evalExpr env e = .ok (.bool (specExpr tv e))
  | .leaf i => by simp [evalExpr, specExpr, h]
  | .group m xs => by simp only [evalExpr, specExpr]; exact evalGroup_spec env tv h m xs
theorem evalGroup_spec (env : Env) (tv : Nat → Bool) (h : ∀ i, env i = .ok (.bool (tv i))) (m : Mode) :
    ∀ xs : List Expr, evalGroup env m xs = .ok (.bool (specGroup tv m xs))
  | [] => by cases m <;> simp [evalGroup, specGroup]
  | x :: xs => by
    have hx := evalExpr_spec env tv h x
    have hxs := evalGroup_spec env tv h m xs
    simp only [evalGroup, hx]
    cases m <;> cases hb : specExpr tv x <;> simp [specGroup, hb, hxs]
end
#print axioms evalExpr_spec

end GroupTruth
