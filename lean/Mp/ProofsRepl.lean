import Mp.ProofsStr
/-! C18 — `ReplaceAll` replaces every non-overlapping occurrence of a non-empty search string, left to right.

`replaceAllB` (the model of `strings.ReplaceAll` on a non-empty search string, validated against Go on every run) is a
fuel-driven scan. The theorems below say what it computes without mentioning the scan:

* `replaceAll_no_occurrence` — a text in which the search string does not occur is returned unchanged;
* `replaceAll_first_occurrence` — if the text is `a ++ find ++ b` and this is the leftmost occurrence (no occurrence starts
  inside `a`), the result is `a ++ repl ++ (the result for b)`: the occurrence is replaced, and the scan continues AFTER it
  (non-overlapping);
* `replaceAll_pieces` — for any pieces `p₀ … pₙ` none of which lets an occurrence start inside it, the text
  `p₀ find p₁ find … pₙ` becomes `p₀ repl p₁ repl … pₙ`.
-/
namespace Mp

/-- the scan with exactly the fuel the entry point gives it -/
def replR (find repl l : Bytes) : Bytes := replaceAllB.go find repl l (l.length + 1)

theorem replaceAllB_eq (s find repl : Bytes) : replaceAllB s find repl = replR find repl s := rfl

theorem repl_go_fuel (find repl : Bytes) (hne : find ≠ []) :
    ∀ (fuel : Nat) (l : Bytes), l.length < fuel → replaceAllB.go find repl l fuel = replR find repl l := by
  intro fuel
  induction fuel using Nat.strongRecOn with
  | _ fuel ih =>
    intro l hl
    cases fuel with
    | zero => omega
    | succ f =>
      unfold replR
      unfold replaceAllB.go
      cases hp : find.isPrefixOf l with
      | true =>
        simp only [if_true]
        have hpre := List.isPrefixOf_iff_prefix.mp hp
        have hfl : 0 < find.length := List.length_pos_iff.mpr hne
        have hle : find.length ≤ l.length := hpre.length_le
        have hd : (l.drop find.length).length < f := by simp; omega
        have hd2 : (l.drop find.length).length < l.length := by simp; omega
        rw [ih f (by omega) _ hd, ih l.length (by omega) _ hd2]
      | false =>
        simp only [Bool.false_eq_true, if_false]
        cases l with
        | nil => rfl
        | cons c t =>
          simp only
          have h1 : t.length < f := by simp at hl; omega
          have h2 : t.length < (c :: t).length := by simp
          rw [ih f (by omega) _ h1, ih (c :: t).length (by simp at hl ⊢; omega) _ h2]

/-- unfolding equations of the scan, free of fuel -/
theorem replR_nil (find repl : Bytes) (hne : find ≠ []) : replR find repl [] = [] := by
  unfold replR
  unfold replaceAllB.go
  have : find.isPrefixOf ([] : Bytes) = false := by
    cases find with
    | nil => exact absurd rfl hne
    | cons a t => rfl
  simp [this]

theorem replR_prefix (find repl l : Bytes) (hne : find ≠ []) (hp : find <+: l) :
    replR find repl l = repl ++ replR find repl (l.drop find.length) := by
  have hfl : 0 < find.length := List.length_pos_iff.mpr hne
  have hle : find.length ≤ l.length := hp.length_le
  unfold replR
  unfold replaceAllB.go
  rw [List.isPrefixOf_iff_prefix.mpr hp]
  simp only [if_true]
  rw [repl_go_fuel find repl hne _ _ (by simp; omega)]
  rfl

theorem replR_cons (find repl : Bytes) (c : UInt8) (t : Bytes) (hne : find ≠ []) (hp : ¬ find <+: c :: t) :
    replR find repl (c :: t) = c :: replR find repl t := by
  unfold replR
  unfold replaceAllB.go
  have : find.isPrefixOf (c :: t) = false := by
    cases h : find.isPrefixOf (c :: t) with
    | false => rfl
    | true => exact absurd (List.isPrefixOf_iff_prefix.mp h) hp
  simp only [this, Bool.false_eq_true, if_false]
  rw [repl_go_fuel find repl hne _ _ (by simp)]
  rfl

/-- "no occurrence of `find` starts inside `a`" in the text `a ++ rest` -/
def NoStartIn (find a rest : Bytes) : Prop := ∀ i, i < a.length → ¬ find <+: (a ++ rest).drop i

theorem noStartIn_tail {find : Bytes} {c : UInt8} {a rest : Bytes} (h : NoStartIn find (c :: a) rest) :
    NoStartIn find a rest := by
  intro i hi
  have := h (i + 1) (by simp; omega)
  simpa using this

/-- skipping a stretch in which no occurrence starts -/
theorem replR_skip (find repl : Bytes) (hne : find ≠ []) :
    ∀ (a rest : Bytes), NoStartIn find a rest → replR find repl (a ++ rest) = a ++ replR find repl rest := by
  intro a
  induction a with
  | nil => intro rest _; rfl
  | cons c a ih =>
    intro rest h
    have h0 : ¬ find <+: c :: (a ++ rest) := by simpa using h 0 (by simp)
    rw [List.cons_append, replR_cons find repl c (a ++ rest) hne h0, ih rest (noStartIn_tail h)]
    rfl

/-- a text without an occurrence comes back unchanged -/
theorem replaceAll_no_occurrence (s find repl : Bytes) (hne : find ≠ []) (h : ¬ find <:+: s) :
    replaceAllB s find repl = s := by
  rw [replaceAllB_eq]
  have hn : NoStartIn find s [] := by
    intro i _ hp
    apply h
    rw [List.append_nil] at hp
    exact hp.isInfix.trans (List.drop_suffix i s).isInfix
  have := replR_skip find repl hne s [] hn
  rw [List.append_nil] at this
  rw [this, replR_nil find repl hne, List.append_nil]

/-- the leftmost occurrence is replaced and the scan continues after it -/
theorem replaceAll_first_occurrence (a b find repl : Bytes) (hne : find ≠ [])
    (hleft : NoStartIn find a (find ++ b)) :
    replaceAllB (a ++ find ++ b) find repl = a ++ repl ++ replaceAllB b find repl := by
  rw [replaceAllB_eq, replaceAllB_eq, List.append_assoc, replR_skip find repl hne a (find ++ b) hleft,
    replR_prefix find repl (find ++ b) hne (List.prefix_append find b)]
  simp

/-- joining pieces with a separator -/
def joinWith (sep : Bytes) : List Bytes → Bytes
  | [] => []
  | [p] => p
  | p :: q :: ps => p ++ sep ++ joinWith sep (q :: ps)

/-- an occurrence that starts inside a piece ends inside `piece ++ find.dropLast`: if `find` does not occur there, none starts
    inside the piece, whatever follows the separator -/
theorem noStartIn_of_not_infix (find p rest : Bytes) (hne : find ≠ [])
    (h : ¬ find <:+: p ++ find.dropLast) : NoStartIn find p (find ++ rest) := by
  intro i hi hp
  apply h
  -- the occurrence is the first |find| bytes of (p ++ find ++ rest).drop i, all of which lie in p ++ find.dropLast
  have hfl : 0 < find.length := List.length_pos_iff.mpr hne
  obtain ⟨t, ht⟩ := hp
  -- (p ++ find ++ rest).drop i = find ++ t
  have key : find = ((p ++ find.dropLast).drop i).take find.length := by
    have h1 : ((p ++ (find ++ rest)).drop i).take find.length = find := by
      rw [← ht]; simp
    have h2 : ((p ++ (find ++ rest)).drop i).take find.length = ((p ++ find.dropLast).drop i).take find.length := by
      -- both are the bytes i .. i+|find| of the text; p ++ find.dropLast is a prefix of p ++ find ++ rest long enough
      have hpre : p ++ find.dropLast <+: p ++ (find ++ rest) := by
        apply List.prefix_append_right_inj p |>.mpr
        exact (List.dropLast_prefix find).trans (List.prefix_append find rest)
      obtain ⟨u, hu⟩ := hpre
      rw [← hu, List.drop_append_of_le_length (by simp; omega), List.take_append_of_le_length]
      simp; omega
    exact h1.symm.trans h2
  have hx : ((p ++ find.dropLast).drop i).take find.length <:+: p ++ find.dropLast :=
    (List.take_prefix _ _).isInfix.trans (List.drop_suffix i _).isInfix
  rw [← key] at hx
  exact hx

/-- pieces joined by the search string become the pieces joined by the replacement -/
theorem replaceAll_pieces (find repl : Bytes) (hne : find ≠ []) :
    ∀ (ps : List Bytes), (∀ p ∈ ps, ¬ find <:+: p ++ find.dropLast) →
      replaceAllB (joinWith find ps) find repl = joinWith repl ps := by
  intro ps
  induction ps with
  | nil => intro _; rw [replaceAllB_eq]; exact replR_nil find repl hne
  | cons p ps ih =>
    intro h
    cases ps with
    | nil =>
      simp only [joinWith]
      apply replaceAll_no_occurrence _ _ _ hne
      intro hi
      exact h p (by simp) (hi.trans (List.prefix_append p _).isInfix)
    | cons q qs =>
      simp only [joinWith]
      rw [replaceAll_first_occurrence p _ find repl hne
        (noStartIn_of_not_infix find p _ hne (h p (by simp)))]
      rw [ih (fun x hx => h x (List.mem_cons_of_mem _ hx))]

/-- the function as the evaluator calls it: two string arguments, the first non-empty -/
theorem replaceAll_func (s f r : Bytes) (hne : f ≠ []) :
    pureFunc "ReplaceAll" [.str f, .str r] (.str false s) = some (okStr (replaceAllB s f r)) := by
  unfold pureFunc
  have : f.isEmpty = false := by cases f with | nil => exact absurd rfl hne | cons _ _ => rfl
  simp [prmStrings, this]

/-- an empty search string is an error (Go's strings.ReplaceAll would insert the replacement between all runes) -/
theorem replaceAll_empty_search (s r : Bytes) :
    pureFunc "ReplaceAll" [.str [], .str r] (.str false s) = some .err := by
  unfold pureFunc
  simp [prmStrings]

/-- non-vacuity: "a-b--c" with "-" → "+" -/
example : replaceAllB [97, 45, 98, 45, 45, 99] [45] [43] = [97, 43, 98, 43, 43, 99] := by decide
/-- overlapping candidates: in "aaa", "aa" is replaced once (left to right, non-overlapping) -/
example : replaceAllB [97, 97, 97] [97, 97] [120] = [120, 97] := by decide

#print axioms replaceAll_no_occurrence
#print axioms replaceAll_first_occurrence
#print axioms replaceAll_pieces
#print axioms replaceAll_func
#print axioms replaceAll_empty_search
end Mp
