import Mp.ParseProofs
/-! C03 — what the parser makes of the keyword of a group: `{..}` (no keyword) and `{AND,..}` are AND groups, `{OR,..}` is an
    OR group, anything else is flagged invalid. The loop that reads the operands keeps the type (and the flags) it was given. -/
namespace Mp

def LogicOp.inv : LogicOp → Bool | .mk i _ _ _ _ => i
def LogicOp.isF : LogicOp → Bool | .mk _ f _ _ _ => f
def LogicOp.ty : LogicOp → Bytes | .mk _ _ t _ _ => t

/-- the operand loop returns a group with the flags and the type it was started with -/
theorem logicLoop_keeps (T : Tables) : ∀ (fuel : Nat) (inv isF : Bool) (ty : Bytes) (ops : List LogicPart) (us : Bytes) (r : TokKind) (s : Sc)
    (l : LogicOp) (r' : TokKind) (s' : Sc),
    logicLoop T fuel inv isF ty ops us r s = .ok l r' s' → l.inv = inv ∧ l.isF = isF ∧ l.ty = ty := by
  intro fuel
  induction fuel with
  | zero => intro inv isF ty ops us r s l r' s' h; unfold logicLoop at h; cases h
  | succ f ih =>
    intro inv isF ty ops us r s l r' s' h
    unfold logicLoop at h
    split at h
    · -- eof
      cases h; exact ⟨rfl, rfl, rfl⟩
    · -- a rune
      split at h
      · exact ih _ _ _ _ _ _ _ _ _ _ h
      · split at h
        · split at h
          · exact ih _ _ _ _ _ _ _ _ _ _ h
          all_goals cases h
        · split at h
          · split at h
            · exact ih _ _ _ _ _ _ _ _ _ _ h
            all_goals cases h
          · split at h
            · cases h; exact ⟨rfl, rfl, rfl⟩
            · cases h
    · cases h

/-- a group that the parser accepts without flagging it invalid is an AND group or an OR group -/
theorem parseLogic_type (T : Tables) (fuel : Nat) (isF : Bool) (r : TokKind) (s : Sc) (l : LogicOp) (r' : TokKind) (s' : Sc)
    (h : parseLogic T fuel isF r s = .ok l r' s') (hv : l.inv = false) : l.ty = str "And" ∨ l.ty = str "Or" := by
  cases fuel with
  | zero => unfold parseLogic at h; cases h
  | succ f =>
    unfold parseLogic at h
    split at h
    · split at h
      · simp only at h
        split at h
        · -- keyword AND / OR
          have := logicLoop_keeps T _ _ _ _ _ _ _ _ _ _ _ h
          rw [this.2.2]
          split
          · exact Or.inl rfl
          · exact Or.inr rfl
        · split at h
          · -- another word: flagged invalid
            have := logicLoop_keeps T _ _ _ _ _ _ _ _ _ _ _ h
            rw [this.1] at hv; cases hv
          · -- no keyword
            have := logicLoop_keeps T _ _ _ _ _ _ _ _ _ _ _ h
            exact Or.inl this.2.2
      · cases h
    · cases h

#print axioms logicLoop_keeps
#print axioms parseLogic_type
end Mp
