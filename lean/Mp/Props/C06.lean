import Mp.ProofsC6
/-! C06 — property theorems (proved in the imported modules; statements are checked there, axioms audited here). -/
#print axioms Mp.convert_int
#print axioms Mp.convert_ptr_int
#print axioms Mp.receiver_int
#print axioms Mp.receiver_ptr_int
#print axioms Mp.convert_str
