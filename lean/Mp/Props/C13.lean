import Mp.CueSteps
import Mp.CueProofs
/-! C13 — CueValidate accepts a key path iff the schema declares it: property theorems (proved in Mp.CueProofs). -/
#print axioms Mp.fvp_snoc
#print axioms Mp.validate_walk
#print axioms Mp.validate_walk_steps
#print axioms Mp.validateSteps_keys
#print axioms Mp.specWalkS_keys
