import Mp.CueProofs
/-! C13 — CueValidate accepts a key path iff the schema declares it: property theorems (proved in Mp.CueProofs). -/
#print axioms Mp.fvp_snoc
#print axioms Mp.validate_walk
