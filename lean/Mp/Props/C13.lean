import Mp.CueSteps
import Mp.CueProofs
import Mp.Tree
import Mp.CueAstProofs
import Mp.CueAstFProofs
/-! C13 — CueValidate accepts a key path iff the schema declares it: property theorems (proved in Mp.CueProofs). -/
#print axioms Mp.fvp_snoc
#print axioms Mp.validate_walk
#print axioms Mp.validate_walk_steps
#print axioms Mp.validateSteps_keys
#print axioms Mp.specWalkS_keys
#print axioms Mp.Tree.hasErrors_step
#print axioms Mp.Tree.call_hasErrors
#print axioms Mp.Tree.param_hasErrors
#print axioms Mp.Tree.call_param_anywhere
#print axioms Mp.Tree.logic_hasErrors
#print axioms Mp.Tree.path_hasErrors
#print axioms Mp.Tree.hasErrors_sound
#print axioms Mp.Tree.hasErrors_complete
#print axioms Mp.Tree.hasErrors_eq_anyNode
#print axioms Mp.Tree.ident_filter_not_consulted
#print axioms Mp.validateKeys_acc_found
#print axioms Mp.vParts_idents
#print axioms Mp.vTop_key_path
#print axioms Mp.stoppedF_keeps
#print axioms Mp.filter_on_non_list
#print axioms Mp.filter_error_ends_walk
#print axioms Mp.clean_filter_transparent
#print axioms Mp.filter_after_call
