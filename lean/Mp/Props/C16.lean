import Mp.CacheProofs
import Mp.CacheKeyProofs
/-! C16 — CueValidate is a deterministic function of its arguments: the caches are unobservable. -/
#print axioms Mp.memo_spec
#print axioms Mp.step_spec
#print axioms Mp.inv_hist
#print axioms Mp.cache_transparent
#print axioms Mp.memoK_injective
#print axioms Mp.memoK_collision_observable
