import Mp.CacheProofs
import Mp.CacheKeyProofs
import Mp.Tree
/-! C16 — CueValidate is a deterministic function of its arguments: the caches are unobservable. -/
#print axioms Mp.memo_spec
#print axioms Mp.step_spec
#print axioms Mp.inv_hist
#print axioms Mp.cache_transparent
#print axioms Mp.memoK_injective
#print axioms Mp.memoK_collision_observable
#print axioms Mp.Tree.hasErrors_step
#print axioms Mp.Tree.call_hasErrors
#print axioms Mp.Tree.param_hasErrors
#print axioms Mp.Tree.call_param_anywhere
#print axioms Mp.Tree.logic_hasErrors
#print axioms Mp.Tree.path_hasErrors
#print axioms Mp.Tree.hasErrors_sound
#print axioms Mp.Tree.hasErrors_complete
#print axioms Mp.Tree.hasErrors_eq_anyNode
#print axioms Mp.Tree.ident_filter_not_consulted
