import Mp.CueFunc
import Mp.ProofsRK
/-! C14 — function typing agrees with the descriptors and with evaluation: property theorems. -/
#print axioms Mp.validOnOk_iff_admits
#print axioms Mp.every_row_admits_something
#print axioms Mp.returns_boolean
#print axioms Mp.returns_number
#print axioms Mp.returns_string
