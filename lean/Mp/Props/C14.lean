import Mp.CueFunc3
import Mp.CueFunc
import Mp.CueFunc2
import Mp.ProofsRK
import Mp.CueAstProofs
/-! C14 — property theorems (proved in the imported modules; statements are checked there, axioms audited here). -/
#print axioms Mp.validOnOk_iff_admits
#print axioms Mp.every_row_admits_something
#print axioms Mp.returns_boolean
#print axioms Mp.returns_number
#print axioms Mp.returns_string
#print axioms Mp.reports_descriptor_type
#print axioms Mp.concrete_rows_not_known
#print axioms Mp.element_type_of_typed_list
#print axioms Mp.element_type_of_struct_list
#print axioms Mp.element_type_after_call
#print axioms Mp.lookup_self
#print axioms Mp.over_long_rejected
#print axioms Mp.asArray_twice_then_element
#print axioms Mp.asArray_once_then_element
#print axioms Mp.vParams_lits_some
#print axioms Mp.paramCheck_keeps_none
#print axioms Mp.over_long_literals_rejected
