import Mp.ProofsS
/-! C03 — property theorems (proved in the imported modules; statements are checked there, axioms audited here). -/
#print axioms Mp.sLogic_bool
#print axioms Mp.sLParts_bool
#print axioms Mp.sLParts_truth
