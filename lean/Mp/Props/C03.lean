import Mp.ProofsS
import Mp.ParseLogicProofs
/-! C03 — property theorems (proved in the imported modules; statements are checked there, axioms audited here). -/
#print axioms Mp.sLogic_bool
#print axioms Mp.sLParts_bool
#print axioms Mp.sLParts_truth
#print axioms Mp.logicLoop_keeps
#print axioms Mp.parseLogic_type
