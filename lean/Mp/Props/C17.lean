import Mp.ProofsFn
import Mp.ProofsArr
/-! C17 — array functions return the right element, count and aggregate: property theorems. -/
#print axioms Mp.count_spec
#print axioms Mp.asArray_spec
#print axioms Mp.first_spec
#print axioms Mp.last_spec
#print axioms Mp.first_empty
#print axioms Mp.last_empty
#print axioms Mp.index_spec
#print axioms Mp.index_out_of_range
#print axioms Mp.index_negative
#print axioms Mp.index_fractional
#print axioms Mp.first_eq_index0
#print axioms Mp.last_eq_index
#print axioms Mp.any_spec
