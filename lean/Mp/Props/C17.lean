import Mp.ProofsArr2
import Mp.ProofsFn
import Mp.ProofsArr
import Mp.AnyOfProofs
import Mp.ProofsSel
import Mp.ProofsSel2
/-! C17 — property theorems (proved in the imported modules; statements are checked there, axioms audited here). -/
#print axioms Mp.count_spec
#print axioms Mp.asArray_spec
#print axioms Mp.first_spec
#print axioms Mp.last_spec
#print axioms Mp.first_empty
#print axioms Mp.last_empty
#print axioms Mp.index_spec
#print axioms Mp.index_out_of_range
#print axioms Mp.index_negative
#print axioms Mp.index_fractional
#print axioms Mp.first_eq_index0
#print axioms Mp.last_eq_index
#print axioms Mp.any_spec
#print axioms Mp.anyOf_dec_iff
#print axioms Mp.anyOf_str_iff
#print axioms Mp.selectOn_slice
#print axioms Mp.selectOn_array
#print axioms Mp.select_spec
#print axioms Mp.select_first_failure
#print axioms Mp.select_scalar_length
#print axioms Mp.L2.selectList_key
#print axioms Mp.L2.projection_eq_select
#print axioms Mp.L2.aggregate_projection_eq_select
#print axioms Mp.isIndex_scaled
#print axioms Mp.isIndex_up
#print axioms Mp.index_spec_of
#print axioms Mp.index_spec_scaled
#print axioms Mp.index_spec_up
#print axioms Mp.index_out_of_range_scaled
