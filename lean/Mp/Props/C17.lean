import Mp.ProofsFn
/-! C17 — property theorems (proved in the imported modules; statements are checked there, axioms audited here). -/
#print axioms Mp.count_spec
#print axioms Mp.asArray_spec
