import Mp.Deps
import Mp.DepsExact
/-! C15 — a step sees only base paths and its transitive dependencies: property theorems. -/
#print axioms Deps.closure_sound
#print axioms Deps.closure_complete
#print axioms Deps.closure_exact
