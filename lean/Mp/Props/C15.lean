import Mp.CueSteps
import Mp.Deps
import Mp.DepsExact
import Mp.CueDeps
/-! C15 — property theorems (proved in the imported modules; statements are checked there, axioms audited here). -/
#print axioms Deps.closure_sound
#print axioms Deps.closure_complete
#print axioms Deps.closure_exact
#print axioms Mp.closure_bridge
#print axioms Mp.closure_model_exact
#print axioms Mp.blocked_iff
#print axioms Mp.blocked_first_key_rejected
#print axioms Mp.unblocked_first_key
#print axioms Mp.blocked_only_first_key
#print axioms Mp.first_key_blocked
