import Mp.CueSteps
import Mp.Deps
import Mp.DepsExact
import Mp.CueDeps
import Mp.Tree
import Mp.CueWalk
import Mp.CueAstProofs
import Mp.CueAstBridge
import Mp.CueAstFProofs
/-! C15 — property theorems (proved in the imported modules; statements are checked there, axioms audited here). -/
#print axioms Deps.closure_sound
#print axioms Deps.closure_complete
#print axioms Deps.closure_exact
#print axioms Mp.closure_bridge
#print axioms Mp.closure_model_exact
#print axioms Mp.blocked_iff
#print axioms Mp.blocked_first_key_rejected
#print axioms Mp.unblocked_first_key
#print axioms Mp.blocked_only_first_key
#print axioms Mp.first_key_blocked
#print axioms Mp.Tree.hasErrors_step
#print axioms Mp.Tree.call_hasErrors
#print axioms Mp.Tree.param_hasErrors
#print axioms Mp.Tree.call_param_anywhere
#print axioms Mp.Tree.logic_hasErrors
#print axioms Mp.Tree.path_hasErrors
#print axioms Mp.Tree.hasErrors_sound
#print axioms Mp.Tree.hasErrors_complete
#print axioms Mp.Tree.hasErrors_eq_anyNode
#print axioms Mp.Tree.ident_filter_not_consulted
#print axioms Mp.offered_iff
#print axioms Mp.offered_exact
#print axioms Mp.offered_coherent
#print axioms Mp.firstKey_checked
#print axioms Mp.dollar_heads_checked
#print axioms Mp.rejected_wherever
#print axioms Mp.top_at_head_checked
#print axioms Mp.top_group_at_head_checked
#print axioms Mp.unavailable_iff
#print axioms Mp.below_root_keys_not_checked
#print axioms Mp.only_first_key_checked
#print axioms Mp.finishKeys_blocked
#print axioms Mp.stopped_keeps
#print axioms Mp.keys_blocked
#print axioms Mp.blocked_head_errs
#print axioms Mp.blocked_head_never_accepted
#print axioms Mp.accepted_head_not_blocked
#print axioms Mp.acc_path
#print axioms Mp.acc_parts
#print axioms Mp.acc_params
#print axioms Mp.acc_logic
#print axioms Mp.accepted_reads_no_blocked_field
#print axioms Mp.validateKeys_acc_found
#print axioms Mp.vParts_idents
#print axioms Mp.vTop_key_path
#print axioms Mp.ext_path
#print axioms Mp.ext_parts
#print axioms Mp.ext_params
#print axioms Mp.ext_logic
#print axioms Mp.vTopF_extends_vTop
#print axioms Mp.finishKeysB_below_root
#print axioms Mp.keys_below_root_not_blocked
#print axioms Mp.at_path_below_root_ignores_blocked
