import Mp.ProofsNI
import Mp.Analysis
/-! C20 — the static read-set analyses: property theorems. -/
#print axioms Mp.ni_path_full
