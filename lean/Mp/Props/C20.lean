import Mp.ProofsNI
import Mp.ProofsNILink
import Mp.SortProofs
import Mp.Analysis
import Mp.ProofsAddr
/-! C20 — property theorems (proved in the imported modules; statements are checked there, axioms audited here). -/
#print axioms Mp.ni_path_full
#print axioms Mp.rf_sub_path
#print axioms Mp.C20_noninterference_root
#print axioms Mp.C20_noninterference_at
#print axioms Mp.C20_query_noninterference
#print axioms Mp.rootTop_path_mem
#print axioms Mp.rootTop_sorted_nodup
#print axioms Mp.dedupPaths_covers
#print axioms Mp.dedupPaths_from
#print axioms Mp.dedupPaths_nodup
#print axioms Mp.addrTop_nodup
#print axioms Mp.addrTop_nonempty
#print axioms Mp.addrTop_from
#print axioms Mp.addrTop_covers
#print axioms Mp.apParts_idents_mem
#print axioms Mp.dollar_chains_covered
#print axioms Mp.filter_condition_chain_covered
