import Mp.PermProofs
import Mp.C11Bridge
/-! C11 — evaluation is pure / independent of map iteration order: property theorems. -/
#print axioms PermP.findKey_perm
#print axioms Mp.findMapKey_order_independent
