import Mp.PermProofs
import Mp.C11Bridge
import Mp.JsonOutPerm
/-! C11 — evaluation is pure / independent of map iteration order: property theorems. -/
#print axioms PermP.findKey_perm
#print axioms Mp.findMapKey_order_independent
#print axioms Mp.GoJson.sort_perm_eq
#print axioms Mp.GoJson.marshal_map_order_independent
