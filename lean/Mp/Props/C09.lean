import Mp.EscProofs
/-! C09 — print/parse round trip: property theorems. -/
#print axioms Esc.literal_roundtrip
#print axioms Esc.seq_eq_sim
#print axioms Esc.unescape_order_independent
