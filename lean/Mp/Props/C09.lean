import Mp.EscProofs
/-! C09 — print/parse round trip: property theorems. -/
