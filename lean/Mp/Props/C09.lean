import Mp.EscProofs
import Mp.EscBridge
import Mp.FactChecks2
/-! C09 — property theorems (proved in the imported modules; statements are checked there, axioms audited here). -/
#print axioms Esc.literal_roundtrip
#print axioms Esc.seq_eq_sim
#print axioms Esc.unescape_order_independent
#print axioms Mp.unescape_eq_unescS
#print axioms Mp.escape_eq
#print axioms Mp.model_literal_roundtrip
#print axioms Mp.model_unescape_order_independent
#print axioms Mp.FactChecks.model_unescape_rules
#print axioms Mp.FactChecks.model_escape_rules
