import Mp.SprintStruct
import Mp.EscProofs
import Mp.EscBridge
import Mp.RoundTrip
import Mp.RoundTripGo
import Mp.EvalStruct
/-! C09 — property theorems (proved in the imported modules; statements are checked there, axioms audited here). -/
#print axioms Esc.literal_roundtrip
#print axioms Esc.seq_eq_sim
#print axioms Esc.unescape_order_independent
#print axioms Mp.unescape_eq_unescS
#print axioms Mp.escape_eq
#print axioms Mp.model_literal_roundtrip
#print axioms Mp.model_unescape_order_independent
#print axioms Mp.scanIdent_run
#print axioms Mp.scan_ident
#print axioms Mp.parseFunc_call0
#print axioms Mp.parseFunc_callS
#print axioms Mp.scan_string
#print axioms Mp.unescape_token
#print axioms Mp.pathLoop_keys
#print axioms Mp.sprint_keyPath
#print axioms Mp.parse_sprint_keyPath
#print axioms Mp.sprint_parse_sprint
#print axioms Mp.go_punct
#print axioms Mp.go_at
#print axioms Mp.go_paren
#print axioms Mp.go_mark
#print axioms Mp.parse_sprint_keyPath_go
#print axioms Mp.sprint_erPath
#print axioms Mp.sprint_of_same_structure
#print axioms Mp.sprintLogic_of_same_structure
#print axioms Mp.funcLoop_args
#print axioms Mp.parseFunc_callA
#print axioms Mp.go_arg
#print axioms Mp.elab_erPath
#print axioms Mp.selOf_er
#print axioms Mp.eval_of_same_structure
#print axioms Mp.evalLogic_of_same_structure
#print axioms Mp.elab_ignores_marks
