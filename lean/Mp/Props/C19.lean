import Mp.ProofsG
/-! C19 — property theorems (proved in the imported modules; statements are checked there, axioms audited here). -/
#print axioms Mp.propagate
#print axioms Mp.missing_marked_key
#print axioms Mp.missing_unmarked_key
