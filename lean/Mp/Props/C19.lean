import Mp.MarkProofs
import Mp.ProofsG
import Mp.NullProofs
import Mp.NumeralProofs
import Mp.MarkIrrel
/-! C19 — property theorems (proved in the imported modules; statements are checked there, axioms audited here). -/
#print axioms Mp.propagate
#print axioms Mp.missing_marked_key
#print axioms Mp.missing_unmarked_key
#print axioms Mp.isNotNull_neg
#print axioms Mp.isNotEmpty_neg
#print axioms Mp.isNotNullOrEmpty_neg
#print axioms Mp.isNullOrEmpty_disj
#print axioms Mp.isNull_table
#print axioms Mp.isEmpty_table
#print axioms Mp.null_predicates_reject_arguments
#print axioms Mp.splitMark_marked
#print axioms Mp.splitMark_unmarked
#print axioms Mp.Dec.ofString_alphabet
#print axioms Mp.Dec.not_numeral_of_foreign_byte
#print axioms Mp.Dec.empty_not_numeral
#print axioms Mp.sParts_append
#print axioms Mp.sParts_prev_irrel
#print axioms Mp.mark_irrelevant_head
#print axioms Mp.mark_irrelevant_on_present_key
#print axioms Mp.stopped_before
