import Mp.FoldProofs
import Mp.ProofsL2
import Mp.ProofsL3
/-! C01 — property theorems (proved in the imported modules; statements are checked there, axioms audited here). -/
#print axioms Mp.L2.findMapKey_spec
#print axioms Mp.L2.identDo_arr
#print axioms Mp.L2.path_refines
#print axioms Mp.L2.path_refines_struct
#print axioms Mp.L2.path_carrier_independent
#print axioms Mp.runeEqFold_ascii
#print axioms Mp.equalFold_ascii
