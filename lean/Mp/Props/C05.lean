import Mp.DecProofs
/-! C05 — property theorems (proved in the imported modules; statements are checked there, axioms audited here). -/
#print axioms Mp.Dec.cmp_spec
#print axioms Mp.Dec.trichotomy
#print axioms Mp.Dec.cmp_repr_independent
