import Mp.DecProofs
import Mp.CmpFunc
import Mp.AnyOfProofs
import Mp.NumeralProofs
/-! C05 — property theorems (proved in the imported modules; statements are checked there, axioms audited here). -/
#print axioms Mp.Dec.cmp_spec
#print axioms Mp.Dec.trichotomy
#print axioms Mp.Dec.cmp_repr_independent
#print axioms Mp.less_iff
#print axioms Mp.greater_iff
#print axioms Mp.equal_iff
#print axioms Mp.lessOrEqual_iff
#print axioms Mp.greaterOrEqual_iff
#print axioms Mp.notEqual_iff
#print axioms Mp.relations_coherent
#print axioms Mp.relations_repr_independent
#print axioms Mp.equal_num_vs_other
#print axioms Mp.equal_str
#print axioms Mp.equal_bool
#print axioms Mp.equal_str_vs_other
#print axioms Mp.anyOf_dec_iff
#print axioms Mp.anyOf_str_iff
#print axioms Mp.Dec.ofString_alphabet
#print axioms Mp.Dec.not_numeral_of_foreign_byte
#print axioms Mp.Dec.empty_not_numeral
