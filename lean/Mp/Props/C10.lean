import Mp.JsonPath
import Mp.JsonDoc
import Mp.JsonProofs
import Mp.ProofsSim
import Mp.ProofsSim2
import Mp.ProofsL3
import Mp.JsonOutProofs
/-! C10 — property theorems (proved in the imported modules; statements are checked there, axioms audited here). -/
#print axioms Mp.sim_normalize
#print axioms Mp.func_carrier_independent
#print axioms Mp.L2.path_carrier_independent
#print axioms Mp.objectAsMap_struct
#print axioms Mp.objectAsMap_ptr_struct
#print axioms Mp.objectAsMap_ptr_map
#print axioms Mp.object_receiver_carrier_independent
#print axioms Mp.GoJson.pValue_render
#print axioms Mp.GoJson.parse_render
#print axioms Mp.GoJson.unmarshal_render_object
#print axioms Mp.GoJson.toGo_ofDoc
#print axioms Mp.GoJson.parseJSON_of_document
#print axioms Mp.GoJson.parseJSON_func
#print axioms Mp.GoJson.sPart_parseJSON
#print axioms Mp.GoJson.parseJSON_then_path
#print axioms Mp.GoJson.marshal_render
#print axioms Mp.GoJson.asJSON_func
#print axioms Mp.GoJson.asJSON_then_parseJSON
