import Mp.EvalS
