import Mp.ProofsSim
import Mp.ProofsL3
/-! C10 — results do not depend on the Go carrier types: property theorems. -/
#print axioms Mp.sim_normalize
#print axioms Mp.func_carrier_independent
#print axioms Mp.L2.path_carrier_independent
