import Mp.ProofsT
/-! C07 — evaluation is total: property theorems (statements proved in Mp.ProofsT / Mp.ProofsP). -/
#print axioms Mp.eval_never_panics
#print axioms Mp.pureFunc_np
