import Mp.ProofsStr2
import Mp.ProofsStr
import Mp.ProofsRepl
import Mp.NumeralProofs
/-! C18 — string functions mean what their names say: property theorems (proved in Mp.ProofsStr). -/
#print axioms Mp.isInfix_iff
#print axioms Mp.contains_true_iff
#print axioms Mp.prefix_true_iff
#print axioms Mp.suffix_true_iff
#print axioms Mp.notContains_neg
#print axioms Mp.notPrefix_negOut
#print axioms Mp.notSuffix_neg
#print axioms Mp.left_take
#print axioms Mp.right_drop
#print axioms Mp.trimLeft_drop
#print axioms Mp.trimRight_take
#print axioms Mp.stringPart_negative
#print axioms Mp.stringPart_fractional
#print axioms Mp.replaceAll_no_occurrence
#print axioms Mp.replaceAll_first_occurrence
#print axioms Mp.replaceAll_pieces
#print axioms Mp.replaceAll_func
#print axioms Mp.replaceAll_empty_search
#print axioms Mp.stringPart_of
#print axioms Mp.left_take_scaled
#print axioms Mp.right_drop_scaled
#print axioms Mp.trimLeft_scaled
#print axioms Mp.trimRight_scaled
#print axioms Mp.Dec.ofString_alphabet
#print axioms Mp.Dec.not_numeral_of_foreign_byte
#print axioms Mp.Dec.empty_not_numeral
