import Mp.ParseProofs
/-! C08 — parsing is total: property theorems. -/
#print axioms Mp.scan_progress
#print axioms Mp.parse_fuel_sufficient
