import Mp.ParseProofs
import Mp.PoolProofs
/-! C08 — parsing is total: property theorems (proved in Mp.LexProofs / Mp.ParseProofs / Mp.PoolProofs). -/
#print axioms Mp.scan_progress
#print axioms Mp.parse_fuel_sufficient
#print axioms Pool.history_independent
