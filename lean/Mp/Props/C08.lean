import Mp.ParseProofs
import Mp.PoolProofs
import Mp.ChunkProofs
import Mp.ParseNoPanic
/-! C08 — parsing is total: property theorems (proved in Mp.LexProofs / Mp.ParseProofs / Mp.PoolProofs). -/
#print axioms Mp.scan_progress
#print axioms Mp.parse_fuel_sufficient
#print axioms Pool.history_independent
#print axioms Mp.fullRune_of_four
#print axioms Mp.decodeRune_append
#print axioms Mp.chunk_independent
#print axioms Mp.same_bytes_same_runes
#print axioms Mp.sc_next_decodes
#print axioms Mp.parse_never_panics
#print axioms Mp.parse_op_or_err
