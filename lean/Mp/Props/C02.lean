import Mp.ProofsF
import Mp.NullProofs
/-! C02 — property theorems (proved in the imported modules; statements are checked there, axioms audited here). -/
#print axioms Mp.filterList_spec
#print axioms Mp.filter_slice
#print axioms Mp.filter_compose
#print axioms Mp.filter_single_object
#print axioms Mp.filter_single_struct
#print axioms Mp.filter_empty
