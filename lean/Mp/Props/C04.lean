import Mp.DecProofs
import Mp.DivProofs3
import Mp.ModProofs
import Mp.AggProofs
import Mp.AggFunc
/-! C04 — property theorems (proved in the imported modules; statements are checked there, axioms audited here). -/
#print axioms Mp.Dec.add_toRat
#print axioms Mp.Dec.sub_toRat
#print axioms Mp.Dec.mul_toRat
#print axioms Mp.Dec.div_bound
#print axioms Mp.Dec.mod_spec
#print axioms Mp.Dec.modQuot_trunc
#print axioms Mp.Dec.sumL_toRat
#print axioms Mp.Dec.minL_spec
#print axioms Mp.Dec.maxL_spec
#print axioms Mp.Dec.avgL_bound
#print axioms Mp.sum_spec
#print axioms Mp.minimum_spec
#print axioms Mp.maximum_spec
#print axioms Mp.average_spec
#print axioms Mp.add_func
#print axioms Mp.subtract_func
#print axioms Mp.multiply_func
#print axioms Mp.multiply_out_of_range
#print axioms Mp.divide_func
#print axioms Mp.modulo_func
#print axioms Mp.divide_by_zero
#print axioms Mp.modulo_by_zero
