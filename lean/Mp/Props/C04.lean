import Mp.DecProofs
import Mp.DivProofs3
import Mp.ModProofs
/-! C04 — property theorems (proved in the imported modules; statements are checked there, axioms audited here). -/
#print axioms Mp.Dec.add_toRat
#print axioms Mp.Dec.sub_toRat
#print axioms Mp.Dec.mul_toRat
#print axioms Mp.Dec.div_bound
#print axioms Mp.Dec.mod_spec
#print axioms Mp.Dec.modQuot_trunc
