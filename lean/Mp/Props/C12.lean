import Mp.Lockset
import Mp.PoolProofs
import Mp.ConcSys
/-! C12 — safe under concurrency: the lock discipline orders every pair of conflicting accesses. -/
#print axioms Lockset.lockset_orders
#print axioms Pool.history_independent
#print axioms Mp.ConcSys.calls_return_what_they_return_alone
#print axioms Mp.ConcSys.mutual_exclusion
#print axioms Mp.ConcSys.scanners_exclusive
#print axioms Mp.ConcSys.caches_good
