import Mp.Lockset
import Mp.PoolProofs
import Mp.FactChecks
/-! C12 — safe under concurrency: the lock discipline orders every pair of conflicting accesses. -/
#print axioms Lockset.lockset_orders
#print axioms Pool.history_independent
#print axioms Mp.FactChecks.caches_guarded
#print axioms Mp.FactChecks.shared_writes_only_in_CueValidate
#print axioms Mp.FactChecks.do_methods_do_not_write_receiver
