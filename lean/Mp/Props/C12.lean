import Mp.Lockset
import Mp.PoolProofs
/-! C12 — safe under concurrency: the lock discipline orders every pair of conflicting accesses. -/
#print axioms Lockset.lockset_orders
#print axioms Pool.history_independent
