import Mp.EvalS
/-! Prototype: C19 — `?` propagation on the structural evaluator (core-only). -/
namespace Mp

theorem identDo_nil (name : Bytes) : identDo name .nil = .knf := by
  simp [identDo, RV.of, RV.derefOnce, RV.kind, valuesByName, isEmptyValue]

theorem sPart_ident (k : Bytes) (p : Bool) (cur orig : GoVal) : sPart (.ident k p) cur orig = identDo k cur := by
  unfold sPart; rfl

def markedIdents (ks : List Bytes) : List EPart := ks.map (fun k => EPart.ident k true)

/-- once a marked key has produced "absent", any number of further marked keys keep producing it,
    and the next function receives null -/
theorem propagate (f : EPart) (hf : ∃ n ps sel, f = .func n ps sel) (orig : GoVal) :
    ∀ ks : List Bytes, sParts (markedIdents ks ++ [f]) .nil orig true (some true) = sPart f .nil orig := by
  obtain ⟨n, ps, sel, rfl⟩ := hf
  intro ks
  induction ks with
  | nil =>
    simp only [markedIdents, List.map_nil, List.nil_append]
    unfold sParts
    simp only []
    generalize sPart (.func n ps sel) .nil orig = r
    cases r <;> simp [sParts]
  | cons k ks ih =>
    simp only [markedIdents, List.map_cons, List.cons_append]
    unfold sParts
    simp only [sPart_ident, identDo_nil]
    have : (List.map (fun k => EPart.ident k true) ks ++ [EPart.func n ps sel]) ≠ [] := by simp
    cases hl : (List.map (fun k => EPart.ident k true) ks ++ [EPart.func n ps sel]) with
    | nil => exact absurd hl this
    | cons a b =>
      simp
      rw [← hl]
      exact ih

/-- C19: a missing key marked `?`, followed by any number of marked keys and a function: the function sees null -/
theorem missing_marked_key (k : Bytes) (d orig : GoVal) (ks : List Bytes) (f : EPart)
    (hf : ∃ n ps sel, f = .func n ps sel) (hmiss : identDo k d = .knf) :
    sParts (EPart.ident k true :: (markedIdents ks ++ [f])) d orig false none = sPart f .nil orig := by
  unfold sParts
  simp only [sPart_ident, hmiss]
  have hne : markedIdents ks ++ [f] ≠ [] := by simp
  cases hl : markedIdents ks ++ [f] with
  | nil => exact absurd hl hne
  | cons a b =>
    simp
    rw [← hl]
    exact propagate f hf orig ks

/-- C19: a key that is absent and NOT marked fails with key-not-found whatever follows, marked or not -/
theorem missing_unmarked_key (k : Bytes) (d orig : GoVal) (rest : List EPart) (hmiss : identDo k d = .knf) :
    sParts (EPart.ident k false :: rest) d orig false none = .knf := by
  unfold sParts
  simp [sPart_ident, hmiss]

#print axioms missing_marked_key
end Mp
