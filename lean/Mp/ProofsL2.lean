import Mp.EvalS
/-! Prototype: C01 — refinement of key-only paths to a lookup on logical documents (objects and primitives; arrays next).
    Core-only. -/
namespace Mp
namespace L2

inductive Doc where
  | null
  | bool (b : Bool)
  | num (d : Dec)
  | str (s : Bytes)
  | arr (xs : List Doc)
  | obj (ks : List Bytes) (vs : List Doc)

mutual
def render : Doc → GoVal
  | .null => .nil
  | .bool b => .bool false b
  | .num d => .dec d
  | .str s => .str false s
  | .arr xs => .slice true false (renderList xs)
  | .obj ks vs => .map .str false ks (renderList vs)
def renderList : List Doc → List GoVal
  | [] => []
  | d :: ds => render d :: renderList ds
end

theorem renderList_eq_map (ds : List Doc) : renderList ds = ds.map render := by
  induction ds with
  | nil => rfl
  | cons d ds ih => simp [renderList, ih]

/-- the specification: the first (hence, under the uniqueness hypothesis, the only) key equal under folding -/
def specGet (name : Bytes) : List Bytes → List Doc → Option Doc
  | k :: ks, v :: vs => if equalFold k name then some v else specGet name ks vs
  | _, _ => none

def isObj : Doc → Bool | .obj _ _ => true | _ => false
def isNum : Doc → Bool | .num _ => true | _ => false
/-- `getValuesByName` looks at the first element only: it must be struct- or map-kinded. Numbers are rendered as
    decimal.Decimal (what every conversion inside mpath produces), which reflect sees as a struct, so a leading
    number passes the test and contributes nothing (observation O2 in DESIGN.md; a leading float64 fails it). -/
def headOk (x : Doc) : Bool := isObj x || isNum x

/-- one element's contribution to a projection: objects that have the key contribute its value -/
def projGet (k : Bytes) : Doc → Option Doc
  | .obj ks vs => specGet k ks vs
  | _ => none

def pathSpec : List Bytes → Doc → Option Doc
  | [], d => some d
  | k :: ks, .obj keys vals => (specGet k keys vals).bind (pathSpec ks)
  | k :: ks, .arr xs =>
    match xs with
    | [] => none
    | x :: _ =>
      if headOk x then
        let found := xs.filterMap (projGet k)
        if found.isEmpty then none else pathSpec ks (.arr found)
      else none
  | _ :: _, _ => none

/-- at most one key of the object equals `name` under folding, and keys are not empty -/
def UniqueKey (name : Bytes) (keys : List Bytes) : Prop :=
  (∀ k ∈ keys, k ≠ []) ∧ (keys.filter (fun k => equalFold k name)).length ≤ 1

theorem equalFold_refl (a : Bytes) : equalFold a a = true := equalFoldU_refl a
theorem equalFold_of_eq {a b : Bytes} (h : a = b) : equalFold a b = true := by subst h; exact equalFold_refl a

/-- key lookup in a map finds exactly what the specification finds -/
theorem findMapKey_spec (name : Bytes) : ∀ (keys : List Bytes) (vals : List GoVal) (dvals : List Doc),
    vals = renderList dvals → keys.length = dvals.length → UniqueKey name keys →
    findMapKey keys vals name = (specGet name keys dvals).map render := by
  intro keys
  induction keys with
  | nil => intro vals dvals _ _ _; simp [findMapKey, specGet]
  | cons k ks ih =>
    intro vals dvals hv hl hu
    cases dvals with
    | nil => simp at hl
    | cons dv dvs =>
      subst hv
      obtain ⟨hne, hlen⟩ := hu
      have hkne : k ≠ [] := hne k List.mem_cons_self
      by_cases hf : equalFold k name = true
      · -- k is the unique folding match: no other key matches
        have hrest : ∀ k' ∈ ks, equalFold k' name = false := by
          intro k' hk'
          cases hc' : equalFold k' name with
          | false => rfl
          | true =>
          exfalso
          have : (List.filter (fun k => equalFold k name) (k :: ks)).length ≥ 2 := by
            simp only [List.filter_cons, hf, if_true, List.length_cons]
            have : 0 < (List.filter (fun k => equalFold k name) ks).length :=
              List.length_pos_of_mem (List.mem_filter.mpr ⟨hk', hc'⟩)
            omega
          omega
        have hnoexact : ∀ k' ∈ ks, (k' == name) = false := by
          intro k' hk'
          have h1 := hrest k' hk'
          cases hc : (k' == name) with
          | false => rfl
          | true =>
            have h2 : k' = name := by simpa using hc
            rw [equalFold_of_eq h2] at h1
            simp at h1
        have hfilt : (List.filter (fun p => equalFold p.1 name && !p.1.isEmpty) (ks.zip (renderList dvs))) = [] := by
          apply List.filter_eq_nil_iff.mpr
          intro p hp
          have := hrest p.1 (List.of_mem_zip hp).1
          simp [this]
        have hfind : List.find? (fun p => p.1 == name) (ks.zip (renderList dvs)) = none := by
          apply List.find?_eq_none.mpr
          intro p hp
          have := hnoexact p.1 (List.of_mem_zip hp).1
          simp [this]
        simp only [specGet, hf, if_true, Option.map_some]
        unfold findMapKey
        simp only [renderList, List.zip_cons_cons, List.find?_cons]
        by_cases hex : (k == name) = true
        · simp [hex]
        · have hke : k.isEmpty = false := by cases k <;> simp_all
          simp [hex, hfind, List.filter_cons, hf, hke, hfilt]
      · -- k does not match: recurse
        have hf' : equalFold k name = false := by simpa using hf
        have hex : (k == name) = false := by
          cases hc : (k == name) with
          | false => rfl
          | true =>
            have h2 : k = name := by simpa using hc
            rw [equalFold_of_eq h2] at hf'
            simp at hf'
        have hu' : UniqueKey name ks := by
          refine ⟨fun k' hk' => hne k' (List.mem_cons_of_mem _ hk'), ?_⟩
          simpa [List.filter_cons, hf'] using hlen
        have := ih (renderList dvs) dvs rfl (by simpa using hl) hu'
        simp only [specGet, hf', Bool.false_eq_true, if_false]
        rw [← this]
        unfold findMapKey
        simp [renderList, List.find?_cons, hex, List.filter_cons, hf']

theorem conv_render (v : Doc) : numberKindsToDecimal (render v) = render v := by
  cases v with
  | null => simp [render, numberKindsToDecimal, RV.of, isEmptyValue, RV.kind, RV.derefOnce, toDecimalIfNumber, toDecimalCheck]
  | bool b => cases b <;> simp [render, numberKindsToDecimal, RV.of, isEmptyValue, RV.kind, GoVal.kind, RV.derefOnce, toDecimalIfNumber, toDecimalCheck]
  | num d => simp [render, numberKindsToDecimal, RV.of, isEmptyValue, RV.kind, GoVal.kind, RV.derefOnce, toDecimalIfNumber, toDecimalCheck]
  | str s => cases s <;> simp [render, numberKindsToDecimal, RV.of, isEmptyValue, RV.kind, GoVal.kind, RV.derefOnce]
  | arr xs => cases xs <;> simp [render, renderList, numberKindsToDecimal, RV.of, isEmptyValue, RV.kind, GoVal.kind, RV.derefOnce, toDecimalIfNumber, toDecimalCheck]
  | obj ks vs => cases ks <;> simp [render, numberKindsToDecimal, RV.of, isEmptyValue, RV.kind, GoVal.kind, RV.derefOnce, toDecimalIfNumber, toDecimalCheck]

/-- documents in the property's quantifier: objects have one value per key, no empty key, no two keys equal under
    folding; strings are not numerals -/
inductive Good : Doc → Prop
  | null : Good .null
  | bool (b) : Good (.bool b)
  | num (d) : Good (.num d)
  | str (s) : Dec.ofString s = none → Good (.str s)
  | arr (xs) : (∀ x ∈ xs, Good x) → Good (.arr xs)
  | obj (ks vs) : ks.length = vs.length → (∀ name, UniqueKey name ks) → (∀ v ∈ vs, Good v) → Good (.obj ks vs)

/-- the stronger conversion used for values projected out of arrays leaves good documents alone -/
theorem todec_render (v : Doc) (hg : Good v) : toDecimalIfNumber (render v) = render v := by
  cases hg with
  | null => simp [render, RV.of, isEmptyValue, RV.kind, RV.derefOnce, toDecimalIfNumber, toDecimalCheck]
  | bool b => cases b <;> simp [render, RV.of, isEmptyValue, RV.kind, GoVal.kind, RV.derefOnce, toDecimalIfNumber, toDecimalCheck]
  | num d => simp [render, toDecimalIfNumber, toDecimalCheck]
  | str s h => cases s <;> simp_all [render, RV.of, isEmptyValue, RV.kind, GoVal.kind, RV.derefOnce, toDecimalIfNumber, toDecimalCheck]
  | arr xs _ => cases xs <;> simp [render, renderList, RV.of, isEmptyValue, RV.kind, GoVal.kind, RV.derefOnce, toDecimalIfNumber, toDecimalCheck]
  | obj ks vs _ _ _ => cases ks <;> simp [render, RV.of, isEmptyValue, RV.kind, GoVal.kind, RV.derefOnce, toDecimalIfNumber, toDecimalCheck]

theorem specGet_mem (name : Bytes) : ∀ (ks : List Bytes) (vs : List Doc) (v : Doc), specGet name ks vs = some v → v ∈ vs := by
  intro ks
  induction ks with
  | nil => intro vs v h; simp [specGet] at h
  | cons k ks ih =>
    intro vs v h
    cases vs with
    | nil => simp [specGet] at h
    | cons w ws =>
      simp only [specGet] at h
      split at h
      · cases h; exact List.mem_cons_self
      · exact List.mem_cons_of_mem _ (ih ws v h)

theorem identDo_obj (name : Bytes) (ks : List Bytes) (vs : List Doc) (hl : ks.length = vs.length) (hu : UniqueKey name ks) :
    identDo name (render (.obj ks vs)) = match specGet name ks vs with | some v => .ok (render v) | none => .knf := by
  unfold identDo
  have hd : (RV.of (render (.obj ks vs))).derefOnce = .val (.map .str false ks (renderList vs)) := by
    simp [render, RV.of, RV.derefOnce, RV.kind, GoVal.kind]
  rw [hd]
  simp only []
  rw [findMapKey_spec name ks (renderList vs) vs rfl hl hu]
  cases specGet name ks vs with
  | none => rfl
  | some v => simp [conv_render]

/-- one array element's contribution, as `getFieldValueByNameFromStruct` computes it on an interface-typed slot -/
theorem fieldByName_render (name : Bytes) (x : Doc) (hg : Good x) :
    fieldByName name (.iface (render x)) = (projGet name x).map render := by
  cases hg with
  | null => simp [render, fieldByName, isEmptyValue, projGet]
  | bool b => simp [render, fieldByName, isEmptyValue, projGet, RV.derefOnce, RV.derefAll, GoVal.strip, RV.kind, RV.elem, RV.of]
  | num d => simp [render, fieldByName, isEmptyValue, projGet, RV.derefOnce, RV.derefAll, GoVal.strip, RV.kind, RV.elem, RV.of]
  | str s h => simp [render, fieldByName, isEmptyValue, projGet, RV.derefOnce, RV.derefAll, GoVal.strip, RV.kind, RV.elem, RV.of]
  | arr xs _ => simp [render, fieldByName, isEmptyValue, projGet, RV.derefOnce, RV.derefAll, GoVal.strip, RV.kind, RV.elem, RV.of]
  | obj ks vs hl hu hgs =>
    simp only [render, fieldByName, isEmptyValue, projGet, RV.derefOnce, RV.derefAll, GoVal.strip, RV.kind, RV.elem, RV.of]
    simp only [beq_self_eq_true, Bool.or_true, if_true, Bool.false_eq_true, if_false]
    rw [findMapKey_spec name ks (renderList vs) vs rfl hl (hu name)]
    cases hs : specGet name ks vs with
    | none => rfl
    | some v => simp [conv_render]

theorem filterMap_render (name : Bytes) : ∀ (xs : List Doc), (∀ x ∈ xs, Good x) →
    ((renderList xs).map RV.iface).filterMap (fieldByName name) = renderList (xs.filterMap (projGet name)) := by
  intro xs
  induction xs with
  | nil => intro _; rfl
  | cons x xs ih =>
    intro hg
    have hx := fieldByName_render name x (hg x List.mem_cons_self)
    have ht := ih (fun y hy => hg y (List.mem_cons_of_mem _ hy))
    simp only [renderList, List.map_cons, List.filterMap_cons, hx]
    cases projGet name x with
    | none => simpa using ht
    | some v => simp [renderList, ht]

theorem renderList_isEmpty (xs : List Doc) : (renderList xs).isEmpty = xs.isEmpty := by
  cases xs <;> rfl

/-- the first-element test of `getValuesByName` on an interface-typed slot -/
theorem headKind (x : Doc) :
    (let k := ((RV.iface (render x)).derefAll).kind; (k == Kind.struct || k == Kind.map)) = headOk x := by
  cases x <;> simp [render, RV.derefAll, GoVal.strip, RV.kind, RV.elem, RV.of, GoVal.kind, isObj, isNum, headOk]

theorem valuesByName_slice (name : Bytes) (g : GoVal) (gs : List GoVal) :
    valuesByName name (.slice true false (g :: gs)) =
      (if !((((RV.iface g).derefAll).kind == Kind.struct) || (((RV.iface g).derefAll).kind == Kind.map)) then .knf else
       if (((g :: gs).map RV.iface).filterMap (fieldByName name)).isEmpty then .knf
       else .ok (.slice true false (((g :: gs).map RV.iface).filterMap (fieldByName name)))) := by
  rfl

theorem identDo_slice (name : Bytes) (gs : List GoVal) :
    identDo name (.slice true false gs) = valuesByName name (.slice true false gs) := by
  rfl

theorem identDo_arr (name : Bytes) (xs : List Doc) (hgs : ∀ x ∈ xs, Good x) :
    identDo name (render (.arr xs)) =
      match xs with
      | [] => .knf
      | x :: _ =>
        if headOk x then
          (if (xs.filterMap (projGet name)).isEmpty then .knf else .ok (render (.arr (xs.filterMap (projGet name)))))
        else .knf := by
  cases xs with
  | nil => rfl
  | cons x rest =>
    have hfm := filterMap_render name (x :: rest) hgs
    have hk := headKind x
    simp only [render, renderList] at hfm ⊢
    rw [identDo_slice, valuesByName_slice]
    simp only [] at hk
    rw [hfm, hk, renderList_isEmpty]
    cases headOk x <;> simp

theorem projGet_good (name : Bytes) (x v : Doc) (hg : Good x) (h : projGet name x = some v) : Good v := by
  cases hg with
  | obj ks vs hl hu hgs => exact hgs v (specGet_mem name ks vs v h)
  | null => simp [projGet] at h
  | bool b => simp [projGet] at h
  | num d => simp [projGet] at h
  | str s _ => simp [projGet] at h
  | arr xs _ => simp [projGet] at h

theorem found_good (name : Bytes) (xs : List Doc) (hgs : ∀ x ∈ xs, Good x) : Good (.arr (xs.filterMap (projGet name))) := by
  apply Good.arr
  intro v hv
  obtain ⟨x, hx, hp⟩ := List.mem_filterMap.mp hv
  exact projGet_good name x v (hgs x hx) hp

theorem identDo_prim (name : Bytes) (d : Doc) (h : ∀ ks vs, d ≠ .obj ks vs) (h2 : ∀ xs, d ≠ .arr xs) : identDo name (render d) = .knf := by
  cases d with
  | null => simp [render, identDo, RV.of, RV.derefOnce, RV.kind, valuesByName, isEmptyValue]
  | bool b => cases b <;> simp [render, identDo, RV.of, RV.derefOnce, RV.kind, GoVal.kind, valuesByName, isEmptyValue]
  | num x => simp [render, identDo, RV.of, RV.derefOnce, RV.derefAll, GoVal.strip, RV.kind, GoVal.kind, valuesByName, isEmptyValue, fieldByName]
  | str s => cases s <;> simp [render, identDo, RV.of, RV.derefOnce, RV.kind, GoVal.kind, valuesByName, isEmptyValue]
  | arr xs => exact absurd rfl (h2 xs)
  | obj ks vs => exact absurd rfl (h ks vs)

def idents (ks : List Bytes) : List EPart := ks.map (fun k => EPart.ident k false)

def isNull : Doc → Bool | .null => true | _ => false

theorem isNilVal_render (d : Doc) : isNilVal (render d) = isNull d := by
  cases d <;> simp [render, isNilVal, isNull]

theorem sPart_ident' (k : Bytes) (p : Bool) (cur orig : GoVal) : sPart (.ident k p) cur orig = identDo k cur := by
  unfold sPart; rfl

/-- one step of the specification, shared by the two loop lemmas -/
def stepSpec (k : Bytes) : Doc → Option Doc
  | .obj keys vals => specGet k keys vals
  | .arr xs =>
    match xs with
    | [] => none
    | x :: _ => if headOk x then (let found := xs.filterMap (projGet k); if found.isEmpty then none else some (.arr found)) else none
  | _ => none

theorem pathSpec_cons (k : Bytes) (ks : List Bytes) (d : Doc) : pathSpec (k :: ks) d = (stepSpec k d).bind (pathSpec ks) := by
  cases d with
  | arr xs =>
    cases xs with
    | nil => simp [pathSpec, stepSpec]
    | cons x rest =>
      simp only [pathSpec, stepSpec]
      cases headOk x <;> simp
      split <;> simp_all
  | _ => simp [pathSpec, stepSpec]

theorem identDo_step (k : Bytes) (d : Doc) (hg : Good d) :
    identDo k (render d) = match stepSpec k d with | some v => .ok (render v) | none => .knf := by
  cases hg with
  | obj keys vals hl hu hgs => simp only [stepSpec]; exact identDo_obj k keys vals hl (hu k)
  | arr xs hgs =>
    rw [identDo_arr k xs hgs]
    cases xs with
    | nil => simp [stepSpec]
    | cons x rest =>
      simp only [stepSpec]
      cases headOk x <;> simp
      split <;> simp_all
  | null => rw [identDo_prim k .null (by intro _ _ h; cases h) (by intro _ h; cases h)]; simp [stepSpec]
  | bool b => rw [identDo_prim k (.bool b) (by intro _ _ h; cases h) (by intro _ h; cases h)]; simp [stepSpec]
  | num x => rw [identDo_prim k (.num x) (by intro _ _ h; cases h) (by intro _ h; cases h)]; simp [stepSpec]
  | str s _ => rw [identDo_prim k (.str s) (by intro _ _ h; cases h) (by intro _ h; cases h)]; simp [stepSpec]

theorem stepSpec_good (k : Bytes) (d v : Doc) (hg : Good d) (h : stepSpec k d = some v) : Good v := by
  cases hg with
  | obj keys vals hl hu hgs => exact hgs v (specGet_mem k keys vals v h)
  | arr xs hgs =>
    cases xs with
    | nil => simp [stepSpec] at h
    | cons x rest =>
      simp only [stepSpec] at h
      split at h
      · split at h
        · cases h
        · cases h; exact found_good k (x :: rest) hgs
      · cases h
  | null => simp [stepSpec] at h
  | bool b => simp [stepSpec] at h
  | num x => simp [stepSpec] at h
  | str s _ => simp [stepSpec] at h

theorem stepSpec_null (k : Bytes) : stepSpec k .null = none := rfl

/-- what the loop lemmas need from a rendering of documents as Go values -/
structure Carrier where
  r : Doc → GoVal
  step : ∀ (k : Bytes) (d : Doc), Good d → identDo k (r d) = match stepSpec k d with | some v => .ok (r v) | none => .knf
  nil : ∀ d, isNilVal (r d) = isNull d

/-- the loop of opPath.Do over unmarked keys, started in the state it is in after a step that produced `d` -/
theorem tail_refines (C : Carrier) (orig : GoVal) : ∀ (ks : List Bytes) (d : Doc), Good d → ks ≠ [] →
    sParts (idents ks) (C.r d) orig (isNull d) (some false) =
      match pathSpec ks d with | some v => .ok (C.r v) | none => .knf := by
  intro ks
  induction ks with
  | nil => intro d _ h; exact absurd rfl h
  | cons k ks ih =>
    intro d hg _
    simp only [idents, List.map_cons]
    unfold sParts
    simp only [sPart_ident']
    rw [pathSpec_cons]
    cases hn : isNull d with
    | true =>
      have : d = .null := by cases d <;> simp_all [isNull]
      subst this
      simp [stepSpec_null]
    | false =>
      simp only [Bool.and_false, Bool.false_eq_true, if_false, Option.isSome_some, Bool.true_and]
      rw [C.step k d hg]
      cases hs : stepSpec k d with
      | none => simp
      | some v =>
        simp only [Option.bind_some]
        have hgv := stepSpec_good k d v hg hs
        cases ks with
        | nil => simp [sParts, pathSpec]
        | cons k2 ks2 =>
          have := ih v hgv (by simp)
          simp only [idents] at this
          rw [C.nil, Bool.false_or]
          exact this

/-- C01, for any carrier: `$.k1.….kn` returns exactly the value stored under those keys, matched without regard to
    case and projected across arrays in order, or key-not-found; for paths of ANY length and documents of ANY depth
    and width. -/
theorem path_refines_on (C : Carrier) (ks : List Bytes) (d : Doc) (hg : Good d) (hne : ks ≠ []) :
    sPath (.mk true false (idents ks)) (C.r d) (C.r d) =
      match pathSpec ks d with | some v => .ok (C.r v) | none => .knf := by
  unfold sPath
  cases ks with
  | nil => exact absurd rfl hne
  | cons k ks =>
    simp only [Bool.and_false, Bool.false_eq_true, if_false, if_true, idents, List.map_cons]
    unfold sParts
    simp only [sPart_ident', Option.isSome_none, Bool.false_and, Bool.false_eq_true, if_false]
    rw [pathSpec_cons, C.step k d hg]
    cases hs : stepSpec k d with
    | none => simp
    | some v =>
      simp only [Option.bind_some]
      have hgv := stepSpec_good k d v hg hs
      cases ks with
      | nil => simp [sParts, pathSpec]
      | cons k2 ks2 =>
        have := tail_refines C (C.r d) (k2 :: ks2) v hgv (by simp)
        simp only [idents] at this
        rw [C.nil, Bool.false_or]
        exact this

/-- documents as encoding/json produces them: map[string]any, []any -/
def mapCarrier : Carrier := ⟨render, identDo_step, isNilVal_render⟩

/-- C01 on JSON-decoded data -/
theorem path_refines (ks : List Bytes) (d : Doc) (hg : Good d) (hne : ks ≠ []) :
    sPath (.mk true false (idents ks)) (render d) (render d) =
      match pathSpec ks d with | some v => .ok (render v) | none => .knf :=
  path_refines_on mapCarrier ks d hg hne

/-- non-vacuity: a good document with an array of heterogeneous objects, projected with a re-cased key -/
def exDoc : Doc := .obj [[108]] [.arr [.obj [[107]] [.num ⟨1, 0⟩], .obj [[122]] [.num ⟨2, 0⟩], .obj [[75]] [.num ⟨3, 0⟩]]]
example : pathSpec [[76], [107]] exDoc = some (.arr [.num ⟨1, 0⟩, .num ⟨3, 0⟩]) := by rfl
example : pathSpec [[108], [113]] exDoc = none := by rfl
theorem uk_single (name k : Bytes) (h : k ≠ []) : UniqueKey name [k] := by
  refine ⟨by simpa using h, ?_⟩
  simp only [List.filter_cons, List.filter_nil]
  split <;> simp

theorem good_single (k : Bytes) (v : Doc) (h : k ≠ []) (hv : Good v) : Good (.obj [k] [v]) :=
  Good.obj [k] [v] rfl (fun name => uk_single name k h) (by intro w hw; simp at hw; subst hw; exact hv)

example : Good exDoc := by
  unfold exDoc
  apply good_single _ _ (by simp)
  apply Good.arr
  intro x hx
  simp at hx
  rcases hx with h | h | h <;> subst h <;> exact good_single _ _ (by simp) (Good.num _)

#print axioms path_refines
end L2
end Mp
