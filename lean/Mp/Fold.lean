import Mp.Lex
import Mp.Generated.Unicode
/-! strings.EqualFold, unicode.IsPrint and unicode.IsSpace over the tables of the running Go (regenerated on every run into
    Mp/Generated/Unicode.lean). Core-only. -/
namespace Mp

/-- binary search in an array of pairs sorted by their first component -/
def bsearchFst (a : Array (Nat × Nat)) (r : Nat) : Option (Nat × Nat) :=
  let rec go (lo hi : Nat) (fuel : Nat) : Option (Nat × Nat) :=
    match fuel with
    | 0 => none
    | f + 1 =>
      if lo ≥ hi then none else
      let mid := (lo + hi) / 2
      match a[mid]? with
      | none => none
      | some p => if p.1 == r then some p else if p.1 < r then go (mid + 1) hi f else go lo mid f
  go 0 a.size 64

/-- the greatest range starting at or before `r` (ranges sorted by start) contains `r` -/
def inRanges (a : Array (Nat × Nat)) (r : Nat) : Bool :=
  let rec go (lo hi : Nat) (fuel : Nat) : Bool :=
    match fuel with
    | 0 => false
    | f + 1 =>
      if lo ≥ hi then false else
      let mid := (lo + hi) / 2
      match a[mid]? with
      | none => false
      | some p => if p.1 ≤ r && r ≤ p.2 then true else if p.2 < r then go (mid + 1) hi f else go lo mid f
  go 0 a.size 64

/-- unicode.SimpleFold -/
def simpleFold (r : Nat) : Nat := match bsearchFst Generated.foldPairs r with | some p => p.2 | none => r

/-- the rune comparison of strings.EqualFold -/
def runeEqFold (a b : Nat) : Bool :=
  if a == b then true else
  let sr := if a < b then a else b
  let tr := if a < b then b else a
  if tr < 0x80 then (65 ≤ sr && sr ≤ 90 && tr == sr + 32) else
  let rec walk (r : Nat) (fuel : Nat) : Nat :=
    match fuel with
    | 0 => r
    | f + 1 => if r != sr && r < tr then walk (simpleFold r) f else r
  walk (simpleFold sr) 8 == tr

/-- the runes of a Go string, as `for range` / utf8.DecodeRuneInString yield them (an invalid byte is U+FFFD, width 1) -/
def decodeRunes : Nat → Bytes → List Nat
  | 0, _ => []
  | _ + 1, [] => []
  | f + 1, p => let (r, w, _) := decodeRune p; r :: decodeRunes f (p.drop (max w 1))

def allEqFold : List Nat → List Nat → Bool
  | [], [] => true
  | x :: xs, y :: ys => runeEqFold x y && allEqFold xs ys
  | _, _ => false

/-- strings.EqualFold -/
def equalFoldU (a b : Bytes) : Bool := allEqFold (decodeRunes a.length a) (decodeRunes b.length b)

theorem runeEqFold_refl (a : Nat) : runeEqFold a a = true := by simp [runeEqFold]
theorem allEqFold_refl : ∀ l : List Nat, allEqFold l l = true := by
  intro l; induction l with
  | nil => rfl
  | cons x xs ih => simp [allEqFold, runeEqFold_refl, ih]
theorem equalFoldU_refl (a : Bytes) : equalFoldU a a = true := allEqFold_refl _

/-- the Unicode tables of the running Go -/
def goTables : Tables where
  isPrint r := inRanges Generated.printRanges r
  isSpace r := Generated.spaceRunes.contains r

end Mp
