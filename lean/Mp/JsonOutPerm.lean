import Mp.JsonOut
import Mp.OrdProofs
/-! C11 — AsJSON does not depend on the order in which a map hands out its entries: two listings of the same entries (distinct keys) are
    written as the same text, because the members are written in the order of their keys and that order is a strict total order
    (`OrdP.lex_ord` over the bytes). Core-only. -/
namespace Mp.GoJson

theorem keyLt_eq_lex : ∀ a b : Bytes, keyLt a b = OrdP.lexLt (fun (x y : UInt8) => decide (x < y)) a b := by
  intro a
  induction a with
  | nil => intro b; cases b <;> rfl
  | cons x xs ih =>
    intro b
    cases b with
    | nil => rfl
    | cons y ys => simp only [keyLt, OrdP.lexLt, ih ys, decide_eq_true_eq, GT.gt]

theorem keyLt_irrefl' (a : Bytes) : keyLt a a = false := by
  rw [keyLt_eq_lex]; exact (OrdP.lex_ord _ OrdP.byte_ord).1 a
theorem keyLt_trans (a b c : Bytes) (h1 : keyLt a b = true) (h2 : keyLt b c = true) : keyLt a c = true := by
  rw [keyLt_eq_lex] at *; exact (OrdP.lex_ord _ OrdP.byte_ord).2.1 a b c h1 h2
theorem keyLt_total (a b : Bytes) (h : a ≠ b) : keyLt a b = true ∨ keyLt b a = true := by
  rw [keyLt_eq_lex, keyLt_eq_lex]; exact (OrdP.lex_ord _ OrdP.byte_ord).2.2 a b h
theorem keyLt_asymm (a b : Bytes) (h : keyLt a b = true) : keyLt b a = false := by
  cases hb : keyLt b a with
  | false => rfl
  | true => have := keyLt_trans a b a h hb; rw [keyLt_irrefl'] at this; cases this

abbrev Mem := Bytes × Bytes

/-- members in strictly increasing key order -/
def Sorted (l : List Mem) : Prop := l.Pairwise (fun a b => keyLt a.1 b.1 = true)

theorem insert_perm (m : Mem) : ∀ l : List Mem, (insertMember m l).Perm (m :: l) := by
  intro l
  induction l with
  | nil => exact List.Perm.refl _
  | cons x xs ih =>
    unfold insertMember
    split
    · exact List.Perm.refl _
    · exact (List.Perm.cons x ih).trans (List.Perm.swap m x xs)

theorem insert_sorted (m : Mem) : ∀ l : List Mem, Sorted l → (∀ x ∈ l, x.1 ≠ m.1) → Sorted (insertMember m l) := by
  intro l
  induction l with
  | nil => intro _ _; simp [insertMember, Sorted]
  | cons x xs ih =>
    intro hs hne
    unfold Sorted at hs
    rw [List.pairwise_cons] at hs
    unfold insertMember
    split
    · rename_i hlt
      unfold Sorted
      rw [List.pairwise_cons]
      refine ⟨?_, List.pairwise_cons.mpr hs⟩
      intro y hy
      rcases List.mem_cons.mp hy with rfl | hy
      · exact hlt
      · exact keyLt_trans _ _ _ hlt (hs.1 y hy)
    · rename_i hnlt
      have hxm : keyLt x.1 m.1 = true := by
        rcases keyLt_total m.1 x.1 (fun h => hne x List.mem_cons_self h.symm) with h | h
        · exact absurd h hnlt
        · exact h
      unfold Sorted
      rw [List.pairwise_cons]
      refine ⟨?_, ih hs.2 (fun y hy => hne y (List.mem_cons_of_mem _ hy))⟩
      intro y hy
      have := (insert_perm m xs).subset hy
      rcases List.mem_cons.mp this with rfl | hy'
      · exact hxm
      · exact hs.1 y hy'

theorem sort_perm : ∀ l : List Mem, (sortMembers l).Perm l := by
  intro l
  induction l with
  | nil => exact List.Perm.refl _
  | cons m t ih => exact (insert_perm m (sortMembers t)).trans (List.Perm.cons m ih)

theorem sort_sorted : ∀ l : List Mem, (l.map (·.1)).Nodup → Sorted (sortMembers l) := by
  intro l
  induction l with
  | nil => intro _; simp [sortMembers, Sorted]
  | cons m t ih =>
    intro hnd
    rw [List.map_cons, List.nodup_cons] at hnd
    unfold sortMembers
    apply insert_sorted m _ (ih hnd.2)
    intro x hx heq
    apply hnd.1
    rw [← heq]
    exact List.mem_map_of_mem ((sort_perm t).subset hx)

/-- two listings in strictly increasing key order of the same members are the same listing -/
theorem sorted_perm_eq : ∀ (l1 l2 : List Mem), l1.Perm l2 → Sorted l1 → Sorted l2 → l1 = l2 := by
  intro l1
  induction l1 with
  | nil => intro l2 hp _ _; exact (List.Perm.nil_eq hp)
  | cons a t1 ih =>
    intro l2 hp h1 h2
    cases l2 with
    | nil => exact absurd hp.symm (by simp)
    | cons b t2 =>
      unfold Sorted at h1 h2
      rw [List.pairwise_cons] at h1 h2
      have hab : a = b := by
        by_cases hab : a = b
        · exact hab
        · have ha2 : a ∈ b :: t2 := hp.subset List.mem_cons_self
          have hb1 : b ∈ a :: t1 := hp.symm.subset List.mem_cons_self
          have ha : a ∈ t2 := by
            rcases List.mem_cons.mp ha2 with h | h
            · exact absurd h hab
            · exact h
          have hb : b ∈ t1 := by
            rcases List.mem_cons.mp hb1 with h | h
            · exact absurd h.symm hab
            · exact h
          have x1 := h2.1 a ha
          have x2 := h1.1 b hb
          rw [keyLt_asymm _ _ x1] at x2
          cases x2
      subst hab
      rw [ih t2 (List.Perm.cons_inv hp) h1.2 h2.2]

theorem sort_perm_eq (l1 l2 : List Mem) (hp : l1.Perm l2) (hnd : (l1.map (·.1)).Nodup) : sortMembers l1 = sortMembers l2 := by
  have hnd2 : (l2.map (·.1)).Nodup := (hp.map _).nodup_iff.mp hnd
  exact sorted_perm_eq _ _ ((sort_perm l1).trans (hp.trans (sort_perm l2).symm)) (sort_sorted l1 hnd) (sort_sorted l2 hnd2)

/-- the member an entry of the map is written as, when both its key and its value are -/
def memberOf (p : Bytes × GoVal) : Option Mem :=
  match encString p.1, marshal p.2 with
  | .ok kt, .ok t => some (p.1, kt ++ [58] ++ t)
  | _, _ => none

theorem members_of_ok : ∀ (ps : List (Bytes × GoVal)) (ms : List Mem),
    marshalMembers (ps.map (·.1)) (ps.map (·.2)) = .inl ms → ms = ps.filterMap memberOf ∧ ∀ p ∈ ps, (memberOf p).isSome = true := by
  intro ps
  induction ps with
  | nil => intro ms h; simp [marshalMembers] at h; subst h; simp
  | cons p t ih =>
    intro ms h
    simp only [List.map_cons, marshalMembers] at h
    cases hk : encString p.1 with
    | ok kt =>
      rw [hk] at h
      simp only at h
      cases hv : marshal p.2 with
      | ok tx =>
        rw [hv] at h
        simp only at h
        cases ht : marshalMembers (t.map (·.1)) (t.map (·.2)) with
        | inl ms' =>
          rw [ht] at h
          simp only [Sum.inl.injEq] at h
          obtain ⟨e1, e2⟩ := ih ms' ht
          have hm : memberOf p = some (p.1, kt ++ [58] ++ tx) := by simp [memberOf, hk, hv]
          refine ⟨?_, ?_⟩
          · rw [← h, List.filterMap_cons, hm, e1]
          · intro q hq
            rcases List.mem_cons.mp hq with rfl | hq
            · simp [hm]
            · exact e2 q hq
        | inr o => rw [ht] at h; cases h
      | bad => rw [hv] at h; cases h
      | decline => rw [hv] at h; cases h
    | bad => rw [hk] at h; cases h
    | decline => rw [hk] at h; cases h

theorem ok_of_members : ∀ (ps : List (Bytes × GoVal)), (∀ p ∈ ps, (memberOf p).isSome = true) →
    marshalMembers (ps.map (·.1)) (ps.map (·.2)) = .inl (ps.filterMap memberOf) := by
  intro ps
  induction ps with
  | nil => intro _; simp [marshalMembers]
  | cons p t ih =>
    intro h
    have hp := h p List.mem_cons_self
    have ht := ih (fun q hq => h q (List.mem_cons_of_mem _ hq))
    simp only [List.map_cons, marshalMembers]
    unfold memberOf at hp
    cases hk : encString p.1 with
    | ok kt =>
      cases hv : marshal p.2 with
      | ok tx =>
        simp only [ht]
        have hm : memberOf p = some (p.1, kt ++ [58] ++ tx) := by simp [memberOf, hk, hv]
        rw [List.filterMap_cons, hm]
      | bad => rw [hk, hv] at hp; simp at hp
      | decline => rw [hk, hv] at hp; simp at hp
    | bad => rw [hk] at hp; simp at hp
    | decline => rw [hk] at hp; simp at hp


/-- what stops the listing of the members is never a text -/
theorem members_err : ∀ (ps : List (Bytes × GoVal)) (t : Bytes), marshalMembers (ps.map (·.1)) (ps.map (·.2)) = .inr (.ok t) → False := by
  intro ps
  induction ps with
  | nil => intro t h; simp [marshalMembers] at h
  | cons p r ih =>
    intro t h
    simp only [List.map_cons, marshalMembers] at h
    cases hk : encString p.1 with
    | ok kt =>
      rw [hk] at h
      simp only at h
      cases hv : marshal p.2 with
      | ok tx =>
        rw [hv] at h
        simp only at h
        cases ht : marshalMembers (r.map (·.1)) (r.map (·.2)) with
        | inl ms' => rw [ht] at h; cases h
        | inr o => rw [ht] at h; simp only [Sum.inr.injEq] at h; subst h; exact ih t ht
      | bad => rw [hv] at h; cases h
      | decline => rw [hv] at h; cases h
    | bad => rw [hk] at h; cases h
    | decline => rw [hk] at h; cases h

theorem memberOf_key (p : Bytes × GoVal) (m : Mem) (h : memberOf p = some m) : m.1 = p.1 := by
  unfold memberOf at h
  split at h
  · cases h; rfl
  · cases h

theorem keys_of_members : ∀ (ps : List (Bytes × GoVal)), (∀ p ∈ ps, (memberOf p).isSome = true) →
    (ps.filterMap memberOf).map (·.1) = ps.map (·.1) := by
  intro ps
  induction ps with
  | nil => intro _; rfl
  | cons p t ih =>
    intro h
    have hp := h p List.mem_cons_self
    cases hm : memberOf p with
    | none => rw [hm] at hp; cases hp
    | some m =>
      rw [List.filterMap_cons, hm]
      simp only [List.map_cons]
      rw [memberOf_key p m hm, ih (fun q hq => h q (List.mem_cons_of_mem _ hq))]

/-- **C11, AsJSON**: the text written for an object does not depend on the order in which the map lists its entries -/
theorem marshal_map_order_independent (kk : KeyKind) (ps ps' : List (Bytes × GoVal)) (hp : ps.Perm ps')
    (hnd : (ps.map (·.1)).Nodup) (t : Bytes)
    (h : marshal (.map kk false (ps.map (·.1)) (ps.map (·.2))) = .ok t) :
    marshal (.map kk false (ps'.map (·.1)) (ps'.map (·.2))) = .ok t := by
  unfold marshal at h ⊢
  by_cases hk : (kk == KeyKind.iface) = true
  · rw [if_pos hk] at h; cases h
  · rw [if_neg hk] at h ⊢
    simp only [Bool.false_eq_true, if_false] at h ⊢
    cases hm : marshalMembers (ps.map (·.1)) (ps.map (·.2)) with
    | inr o =>
      rw [hm] at h
      simp only at h
      subst h
      have := members_err ps t hm
      exact absurd this (by simp)
    | inl ms =>
      rw [hm] at h
      simp only [O.ok.injEq] at h
      obtain ⟨e1, e2⟩ := members_of_ok ps ms hm
      have e2' : ∀ p ∈ ps', (memberOf p).isSome = true := fun p hp' => e2 p (hp.symm.subset hp')
      rw [ok_of_members ps' e2']
      simp only [O.ok.injEq]
      rw [← h, e1]
      have hperm : (ps.filterMap memberOf).Perm (ps'.filterMap memberOf) := hp.filterMap _
      have hkeys : ((ps.filterMap memberOf).map (·.1)).Nodup := by rw [keys_of_members ps e2]; exact hnd
      rw [sort_perm_eq _ _ hperm hkeys]

/-- non-vacuity: {"b":true,"a":null} listed either way is written `{"a":null,"b":true}` -/
example : marshal (.map .str false [[98], [97]] [.bool false true, .nil]) = .ok [123, 34, 97, 34, 58, 110, 117, 108, 108, 44, 34, 98, 34, 58, 116, 114, 117, 101, 125] := by
  simp [marshal, marshalMembers, encString, encBytes, encByte, sortMembers, insertMember, keyLt, objText, joinMembers]

#print axioms sort_perm_eq
#print axioms marshal_map_order_independent
end Mp.GoJson
