/-! Prototype: C08 — the result of a parse does not depend on which pooled scanner is used nor on what was parsed
    before (repaired code: Reset re-installs mode and handler after Init; the deferred function clears err and src).
    Core-only. -/
namespace Pool

/-- the fields of mpath's `scanner` (and of the text/scanner inside) that survive between parses -/
structure Scn where
  customIdent : Bool        -- IsIdentRune: set once by the pool's New, never touched by Init
  modeOk : Bool             -- Mode = the seven flags mpath wants
  wsGo : Bool               -- Whitespace = GoWhitespace
  handler : Nat             -- 0 = nil (prints to stderr), 1 = silent, 2 = capturing
  err : Bool                -- s.err ≠ nil
  srcErr : Bool             -- a read error remembered by the wrapping reader
  dirtyBuf : Bool           -- buffer / look-ahead / position left over from the last input
deriving DecidableEq, Repr

/-- sync.Pool.New -/
def fresh : Scn := { customIdent := true, modeOk := true, wsGo := false, handler := 1, err := false, srcErr := false, dirtyBuf := false }

/-- Scanner.Init followed by what mpath's Reset adds -/
def reset (s : Scn) : Scn :=
  { s with modeOk := true, wsGo := true, handler := 1, srcErr := false, dirtyBuf := false }

/-- what a parse leaves behind (it may have hit errors; `faulted` = the reader failed) and the deferred clean-up -/
def afterParse (s : Scn) (faulted : Bool) : Scn := { s with dirtyBuf := true, srcErr := faulted }
def release (s : Scn) : Scn := { s with err := false, srcErr := false }

/-- the configuration a parse actually runs with -/
def Ready (s : Scn) : Prop :=
  s.customIdent = true ∧ s.modeOk = true ∧ s.wsGo = true ∧ s.handler = 1 ∧ s.err = false ∧ s.srcErr = false ∧ s.dirtyBuf = false

/-- what every scanner in the pool satisfies -/
def PoolInv (s : Scn) : Prop := s.customIdent = true ∧ s.err = false

theorem fresh_inv : PoolInv fresh := ⟨rfl, rfl⟩

theorem reset_ready (s : Scn) (h : PoolInv s) : Ready (reset s) := by
  obtain ⟨h1, h2⟩ := h
  simp [Ready, reset, h1, h2]

theorem cycle_inv (s : Scn) (h : PoolInv s) (faulted : Bool) : PoolInv (release (afterParse (reset s) faulted)) := by
  obtain ⟨h1, h2⟩ := h
  simp [PoolInv, release, afterParse, reset, h1]

/-- a history of parses on one pooled scanner -/
def runHist : Scn → List Bool → Scn
  | s, [] => s
  | s, f :: t => runHist (release (afterParse (reset s) f)) t

theorem hist_inv : ∀ (h : List Bool) (s : Scn), PoolInv s → PoolInv (runHist s h) := by
  intro h
  induction h with
  | nil => intro s hs; exact hs
  | cons f t ih => intro s hs; exact ih _ (cycle_inv s hs f)

/-- C08: whatever was parsed before — including parses whose reader failed — the next parse starts from the one
    canonical configuration; so with `parseWith : Scn → Input → Result` reading only these fields, its result is a
    function of the input alone. -/
theorem history_independent {Input Result : Type} (parseWith : Scn → Input → Result)
    (hist : List Bool) (inp : Input) :
    parseWith (reset (runHist fresh hist)) inp = parseWith (reset fresh) inp := by
  have h1 := reset_ready _ (hist_inv hist fresh fresh_inv)
  have h2 := reset_ready _ fresh_inv
  have : reset (runHist fresh hist) = reset fresh := by
    obtain ⟨a1, a2, a3, a4, a5, a6, a7⟩ := h1
    obtain ⟨b1, b2, b3, b4, b5, b6, b7⟩ := h2
    cases hx : reset (runHist fresh hist)
    cases hy : reset fresh
    simp_all
  rw [this]

#print axioms history_independent
end Pool
