import Mp.EvalS
/-! Prototype: C02 on the structural evaluator. Core-only. -/
namespace Mp

/-- the loop of opFilter.Do is List.filter: same elements, same order, for arrays of any length -/
theorem filterList_spec (f : GoVal → Out) (φ : GoVal → Bool) :
    ∀ (xs acc : List GoVal), (∀ x ∈ xs, ∃ n, f x = .ok (.bool n (φ x))) →
      filterList f xs acc = .ok (.slice true false (acc ++ xs.filter φ)) := by
  intro xs
  induction xs with
  | nil => intro acc _; simp [filterList]
  | cons x xs ih =>
    intro acc h
    obtain ⟨n, hx⟩ := h x List.mem_cons_self
    have hrest := fun a => ih a (fun y hy => h y (List.mem_cons_of_mem _ hy))
    unfold filterList
    rw [hx]
    simp only []
    cases hφ : φ x
    · simp [hrest, List.filter_cons, hφ]
    · simp [hrest, List.filter_cons, hφ]

/-- any slice or array, typed or not, is filtered as the list of its elements -/
theorem asStructOrSlice_slice (ei n : Bool) (xs : List GoVal) :
    asStructOrSlice (.slice ei n xs) = some (.slice true false xs, false) := by
  unfold asStructOrSlice
  simp [RV.of, RV.derefOnce, RV.kind, GoVal.kind]

theorem asStructOrSlice_array (ei : Bool) (xs : List GoVal) :
    asStructOrSlice (.array ei xs) = some (.slice true false xs, false) := by
  unfold asStructOrSlice
  simp [RV.of, RV.derefOnce, RV.kind, GoVal.kind]

/-- C02: `coll[body]` over a slice keeps exactly the elements on which the body is true, in order -/
theorem filter_slice (lo : ELogic) (ei n : Bool) (xs : List GoVal) (orig : GoVal) (φ : GoVal → Bool)
    (h : ∀ x ∈ xs, ∃ m, sLogic lo x orig = .ok (.bool m (φ x))) :
    sPart (.filter lo) (.slice ei n xs) orig = .ok (.slice true false (xs.filter φ)) := by
  unfold sPart
  rw [asStructOrSlice_slice]
  simp only []
  have := filterList_spec (fun x => sLogic lo x orig) φ xs [] h
  simpa using this

/-- C02: two filters in a row are one filter with both predicates -/
theorem filter_compose (lo1 lo2 : ELogic) (ei n : Bool) (xs : List GoVal) (orig : GoVal) (φ ψ : GoVal → Bool)
    (h1 : ∀ x ∈ xs, ∃ m, sLogic lo1 x orig = .ok (.bool m (φ x)))
    (h2 : ∀ x ∈ xs, ∃ m, sLogic lo2 x orig = .ok (.bool m (ψ x))) :
    (match sPart (.filter lo1) (.slice ei n xs) orig with
     | .ok v => sPart (.filter lo2) v orig
     | o => o) = .ok (.slice true false (xs.filter (fun x => φ x && ψ x))) := by
  rw [filter_slice lo1 ei n xs orig φ h1]
  simp only []
  rw [filter_slice lo2 true false (xs.filter φ) orig ψ (fun x hx => h2 x (List.mem_filter.mp hx).1)]
  simp [List.filter_filter, Bool.and_comm]

#print axioms filter_slice
#print axioms filter_compose
end Mp
