import Mp.Json
/-! encoding/json's Marshal for the values `func_AsJSON` can be handed, as far as the model takes it on: nil, booleans, strings of
    ASCII bytes (with the escapes of `appendString`, escapeHTML on), integers of every kind, decimals (shopspring's
    `MarshalJSON`: the quoted `String()` text), pointers, slices, arrays and maps with string keys (members in the order of
    their keys, bytewise, as `encoding/json` sorts them). Floats, structs, `[]byte`, maps with other keys and text that is
    not ASCII are DECLINED, not guessed. Core-only. -/
namespace Mp.GoJson

inductive O where
  | ok (text : Bytes)
  | bad          -- json.Marshal returns an error (a function, a channel)
  | decline

def digitsOf (n : Nat) : Bytes := (Nat.toDigits 10 n).map (fun c => c.toNat.toUInt8)

def trimZeros (s : Bytes) : Bytes := (s.reverse.dropWhile (· == 48)).reverse

/-- shopspring `Decimal.String()` = `string(true)` -/
def decText (d : Dec) : Bytes :=
  let sign : Bytes := if d.coef < 0 then [45] else []
  if d.exp ≥ 0 then sign ++ digitsOf (d.coef.natAbs * 10 ^ d.exp.toNat)
  else
    let str := digitsOf d.coef.natAbs
    let e := (-d.exp).toNat
    let intPart := if str.length > e then str.take (str.length - e) else [48]
    let frac := if str.length > e then str.drop (str.length - e) else List.replicate (e - str.length) 48 ++ str
    let frac := trimZeros frac
    sign ++ intPart ++ (if frac.isEmpty then [] else 46 :: frac)

def hexDigit (n : Nat) : UInt8 := if n < 10 then (48 + n).toUInt8 else (87 + n).toUInt8

/-- `appendString` on one ASCII byte, escapeHTML on -/
def encByte (b : UInt8) : Bytes :=
  if b == 92 || b == 34 then [92, b]
  else if b == 8 then [92, 98] else if b == 12 then [92, 102] else if b == 10 then [92, 110]
  else if b == 13 then [92, 114] else if b == 9 then [92, 116]
  else if b.toNat < 32 || b == 60 || b == 62 || b == 38 then [92, 117, 48, 48, hexDigit (b.toNat / 16), hexDigit (b.toNat % 16)]
  else [b]

def encBytes : Bytes → Bytes
  | [] => []
  | b :: t => encByte b ++ encBytes t

def encString (s : Bytes) : O := if s.any (fun b => decide (b.toNat ≥ 128)) then .decline else .ok ([34] ++ encBytes s ++ [34])

def keyLt : Bytes → Bytes → Bool
  | [], [] => false
  | [], _ :: _ => true
  | _ :: _, [] => false
  | a :: as, b :: bs => if a < b then true else if a > b then false else keyLt as bs

/-- members in the order of their keys -/
def insertMember (m : Bytes × Bytes) : List (Bytes × Bytes) → List (Bytes × Bytes)
  | [] => [m]
  | x :: xs => if keyLt m.1 x.1 then m :: x :: xs else x :: insertMember m xs

def sortMembers : List (Bytes × Bytes) → List (Bytes × Bytes)
  | [] => []
  | m :: ms => insertMember m (sortMembers ms)

def joinElems : List Bytes → Bytes
  | [] => [93]
  | x :: xs => [44] ++ x ++ joinElems xs

/-- a member is (the key as the map has it, the text `"key":value`): the order is that of the keys themselves -/
def joinMembers : List (Bytes × Bytes) → Bytes
  | [] => [125]
  | (_, kv) :: ms => [44] ++ kv ++ joinMembers ms

def arrText : List Bytes → Bytes
  | [] => [91, 93]
  | x :: xs => [91] ++ x ++ joinElems xs

def objText : List (Bytes × Bytes) → Bytes
  | [] => [123, 125]
  | (_, kv) :: ms => [123] ++ kv ++ joinMembers ms

def isByteSlice (ei : Bool) (xs : List GoVal) : Bool :=
  !ei && xs.any (fun x => match x with | .int .uint8 _ _ => true | _ => false)

mutual
def marshal : GoVal → O
  | .nil => .ok [110, 117, 108, 108]
  | .bool _ true => .ok [116, 114, 117, 101]
  | .bool _ false => .ok [102, 97, 108, 115, 101]
  | .str _ s => encString s
  | .int _ _ v => .ok ((if v < 0 then [45] else []) ++ digitsOf v.natAbs)
  | .f64 _ _ => .decline
  | .dec d => .ok ([34] ++ decText d ++ [34])
  | .ptr true _ => .ok [110, 117, 108, 108]
  | .ptr false v => marshal v
  | .slice ei isNil xs =>
    if isNil then .ok [110, 117, 108, 108] else if isByteSlice ei xs then .decline else
    (match marshalList xs with | .inl ts => .ok (arrText ts) | .inr o => o)
  | .array ei xs => if isByteSlice ei xs then .decline else
    (match marshalList xs with | .inl ts => .ok (arrText ts) | .inr o => o)
  | .map kk isNil ks vs =>
    if kk == .iface then .decline else if isNil then .ok [110, 117, 108, 108] else
    (match marshalMembers ks vs with | .inl ms => .ok (objText (sortMembers ms)) | .inr o => o)
  | .struct _ _ => .decline
  | .func => .bad
  | .chan => .bad
  | .errVal => .decline
/-- the texts of the elements, or the first outcome that is not a text -/
def marshalList : List GoVal → Sum (List Bytes) O
  | [] => .inl []
  | x :: xs =>
    match marshal x with
    | .ok t => (match marshalList xs with | .inl ts => .inl (t :: ts) | .inr o => .inr o)
    | o => .inr o
def marshalMembers : List Bytes → List GoVal → Sum (List (Bytes × Bytes)) O
  | k :: ks, v :: vs =>
    match encString k with
    | .ok kt =>
      (match marshal v with
       | .ok t => (match marshalMembers ks vs with | .inl ms => .inl ((k, kt ++ [58] ++ t) :: ms) | .inr o => .inr o)
       | o => .inr o)
    | o => .inr o
  | _, _ => .inl []
end

end Mp.GoJson
