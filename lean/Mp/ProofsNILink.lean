import Mp.ProofsNI
import Mp.Analysis
/-! C20 — the link between the analysis model (`rootPath`, the model of GetRootFieldsAccessed that is diffed with the
    real function) and the read-set `rfPath` that the non-interference theorem `ni_path_full` is stated with; and the
    top-level statement: evaluating a query on two documents that answer alike for the listed root fields gives the same
    result. Core-only. -/
namespace Mp

/-! ### no path is both `$`-rooted and a filter path (the parser rejects `$` as a filter-body operand; evaluation of such
    a path is an error whatever the data) -/
mutual
def nrfPath : PathOp → Bool
  | .mk _ root isFilter _ ops _ => !(root && isFilter) && nrfParts ops
def nrfParts : List PathPart → Bool
  | [] => true
  | .ident _ _ _ :: rest => nrfParts rest
  | .filter lo _ :: rest => nrfLogic lo && nrfParts rest
  | .func _ _ params _ :: rest => nrfParams params && nrfParts rest
def nrfParams : List Param → Bool
  | [] => true
  | .path p :: rest => nrfPath p && nrfParams rest
  | .logic l :: rest => nrfLogic l && nrfParams rest
  | _ :: rest => nrfParams rest
def nrfLogic : LogicOp → Bool
  | .mk _ _ _ ops _ => nrfLParts ops
def nrfLParts : List LogicPart → Bool
  | [] => true
  | .path p :: rest => nrfPath p && nrfLParts rest
  | .logic l :: rest => nrfLogic l && nrfLParts rest
end

theorem elabPart_func (T : Tables) (fuel : Nat) (i : Bool) (n : Bytes) (ps : List Param) (us : Bytes) :
    ∃ sel, elabPart T fuel (.func i n ps us) = EPart.func n (elabParams T fuel ps) sel := by
  unfold elabPart; exact ⟨_, rfl⟩

mutual
theorem rf_sub_path (T : Tables) (fuel : Nat) (p : PathOp) (h : nrfPath p = true) :
    ∀ k ∈ rfPath (elabPath T fuel p), k ∈ rootPath p := by
  cases p with
  | mk inv root isF me ops us =>
    intro k hk
    unfold nrfPath at h
    simp only [Bool.and_eq_true, Bool.not_eq_true'] at h
    unfold elabPath rfPath at hk
    unfold rootPath
    rcases List.mem_append.mp hk with h1 | h2
    · -- the first key of a `$` path
      cases root with
      | false => simp at h1
      | true =>
        have hF : isF = false := by simpa using h.1
        subst hF
        cases ops with
        | nil => simp [elabParts] at h1
        | cons a rest =>
          cases a with
          | ident name prop us' =>
            simp only [elabParts, elabPart, List.mem_singleton] at h1
            subst h1
            simp [rootParts]
          | filter lo us' => simp [elabParts, elabPart] at h1
          | func i n ps us' =>
            obtain ⟨sel, he⟩ := elabPart_func T fuel i n ps us'
            simp [elabParts, he] at h1
    · exact rf_sub_parts T fuel ops isF false h.2 k h2
termination_by structural p

theorem rf_sub_parts (T : Tables) (fuel : Nat) (ops : List PathPart) (isF seen : Bool) (h : nrfParts ops = true) :
    ∀ k ∈ rfParts (elabParts T fuel ops), k ∈ rootParts isF seen ops := by
  cases ops with
  | nil => intro k hk; simp [elabParts, rfParts] at hk
  | cons a rest =>
    intro k hk
    cases a with
    | ident name prop us' =>
      unfold nrfParts at h
      simp only [elabParts, elabPart, rfParts, rfPart, List.nil_append] at hk
      unfold rootParts
      split
      · exact List.mem_cons_of_mem _ (rf_sub_parts T fuel rest isF true h k hk)
      · exact rf_sub_parts T fuel rest isF seen h k hk
    | filter lo us' =>
      unfold nrfParts at h
      simp only [Bool.and_eq_true] at h
      simp only [elabParts, elabPart, rfParts, rfPart] at hk
      unfold rootParts
      rcases List.mem_append.mp hk with h1 | h2
      · exact List.mem_append.mpr (Or.inl (rf_sub_logic T fuel lo h.1 k h1))
      · exact List.mem_append.mpr (Or.inr (rf_sub_parts T fuel rest isF seen h.2 k h2))
    | func i n ps us' =>
      unfold nrfParts at h
      simp only [Bool.and_eq_true] at h
      obtain ⟨sel, he⟩ := elabPart_func T fuel i n ps us'
      simp only [elabParts, he, rfParts, rfPart] at hk
      unfold rootParts
      rcases List.mem_append.mp hk with h1 | h2
      · exact List.mem_append.mpr (Or.inl (rf_sub_params T fuel ps h.1 k h1))
      · exact List.mem_append.mpr (Or.inr (rf_sub_parts T fuel rest isF seen h.2 k h2))
termination_by structural ops

theorem rf_sub_params (T : Tables) (fuel : Nat) (ps : List Param) (h : nrfParams ps = true) :
    ∀ k ∈ rfParams (elabParams T fuel ps), k ∈ rootParams ps := by
  cases ps with
  | nil => intro k hk; simp [elabParams, rfParams] at hk
  | cons a rest =>
    intro k hk
    cases a with
    | num d =>
      unfold nrfParams at h
      simp only [elabParams, elabParam, rfParams, rfParam, List.nil_append] at hk
      unfold rootParams
      exact rf_sub_params T fuel rest h k hk
    | str s =>
      unfold nrfParams at h
      simp only [elabParams, elabParam, rfParams, rfParam, List.nil_append] at hk
      unfold rootParams
      exact rf_sub_params T fuel rest h k hk
    | bool b =>
      unfold nrfParams at h
      simp only [elabParams, elabParam, rfParams, rfParam, List.nil_append] at hk
      unfold rootParams
      exact rf_sub_params T fuel rest h k hk
    | path p =>
      unfold nrfParams at h
      simp only [Bool.and_eq_true] at h
      simp only [elabParams, elabParam, rfParams, rfParam] at hk
      unfold rootParams
      rcases List.mem_append.mp hk with h1 | h2
      · exact List.mem_append.mpr (Or.inl (rf_sub_path T fuel p h.1 k h1))
      · exact List.mem_append.mpr (Or.inr (rf_sub_params T fuel rest h.2 k h2))
    | logic l =>
      unfold nrfParams at h
      simp only [Bool.and_eq_true] at h
      simp only [elabParams, elabParam, rfParams, rfParam] at hk
      unfold rootParams
      rcases List.mem_append.mp hk with h1 | h2
      · exact List.mem_append.mpr (Or.inl (rf_sub_logic T fuel l h.1 k h1))
      · exact List.mem_append.mpr (Or.inr (rf_sub_params T fuel rest h.2 k h2))
termination_by structural ps

theorem rf_sub_logic (T : Tables) (fuel : Nat) (l : LogicOp) (h : nrfLogic l = true) :
    ∀ k ∈ rfLogic (elabLogic T fuel l), k ∈ rootLogic l := by
  cases l with
  | mk inv isF ty ops us =>
    intro k hk
    unfold nrfLogic at h
    unfold elabLogic rfLogic at hk
    unfold rootLogic
    exact rf_sub_lparts T fuel ops h k hk
termination_by structural l

theorem rf_sub_lparts (T : Tables) (fuel : Nat) (ops : List LogicPart) (h : nrfLParts ops = true) :
    ∀ k ∈ rfLParts (elabLParts T fuel ops), k ∈ rootLogicParts ops := by
  cases ops with
  | nil => intro k hk; simp [elabLParts, rfLParts] at hk
  | cons a rest =>
    intro k hk
    cases a with
    | path p =>
      unfold nrfLParts at h
      simp only [Bool.and_eq_true] at h
      simp only [elabLParts, elabLPart, rfLParts, rfLPart] at hk
      unfold rootLogicParts
      rcases List.mem_append.mp hk with h1 | h2
      · exact List.mem_append.mpr (Or.inl (rf_sub_path T fuel p h.1 k h1))
      · exact List.mem_append.mpr (Or.inr (rf_sub_lparts T fuel rest h.2 k h2))
    | logic l =>
      unfold nrfLParts at h
      simp only [Bool.and_eq_true] at h
      simp only [elabLParts, elabLPart, rfLParts, rfLPart] at hk
      unfold rootLogicParts
      rcases List.mem_append.mp hk with h1 | h2
      · exact List.mem_append.mpr (Or.inl (rf_sub_logic T fuel l h.1 k h1))
      · exact List.mem_append.mpr (Or.inr (rf_sub_lparts T fuel rest h.2 k h2))
termination_by structural ops
end

#print axioms rf_sub_path
end Mp

namespace Mp

/-- the first step of a `$` path reads the original data: the current value is irrelevant -/
theorem sPath_root_cur (isF : Bool) (ops : List EPart) (c1 c2 o : GoVal) :
    sPath (.mk true isF ops) c1 o = sPath (.mk true isF ops) c2 o := by
  unfold sPath
  simp

/-- **C20 (read-set half) for a `$` query**: let `p` be a parsed `$` path in which every `$` path begins with a key (and
    none is a filter operand). If two documents `d`, `d'` answer alike for every root field that the model of
    GetRootFieldsAccessed lists for `p`, then evaluating the query on `d` and on `d'` gives the same outcome — whatever
    else was added to, removed from or changed in the document. -/
theorem C20_noninterference_root (T : Tables) (fuel : Nat) (inv isF me : Bool) (ops : List PathPart) (us : Bytes)
    (hn : nrfPath (.mk inv true isF me ops us) = true)
    (hw : wrPath (elabPath T fuel (.mk inv true isF me ops us)) = true)
    (d d' : GoVal) (ha : ∀ k ∈ rootPath (.mk inv true isF me ops us), identDo k d = identDo k d') :
    sPath (elabPath T fuel (.mk inv true isF me ops us)) d d = sPath (elabPath T fuel (.mk inv true isF me ops us)) d' d' := by
  have hag : Agree (rfPath (elabPath T fuel (.mk inv true isF me ops us))) d d' :=
    fun k hk => ha k (rf_sub_path T fuel _ hn k hk)
  rw [ni_path_full _ d d' hw hag d]
  unfold elabPath
  exact sPath_root_cur _ _ _ _ _

/-- the same for a top-level `@` path that begins with a key: the key is listed, its value is the same in both
    documents, and the rest of the path reads the root only through listed fields -/
theorem C20_noninterference_at (T : Tables) (fuel : Nat) (inv me : Bool) (k : Bytes) (prop : Bool) (usk : Bytes)
    (rest : List PathPart) (us : Bytes)
    (hn : nrfPath (.mk inv false false me (.ident k prop usk :: rest) us) = true)
    (hw : wrPath (elabPath T fuel (.mk inv false false me (.ident k prop usk :: rest) us)) = true)
    (d d' : GoVal) (ha : ∀ x ∈ rootPath (.mk inv false false me (.ident k prop usk :: rest) us), identDo x d = identDo x d') :
    sPath (elabPath T fuel (.mk inv false false me (.ident k prop usk :: rest) us)) d d =
      sPath (elabPath T fuel (.mk inv false false me (.ident k prop usk :: rest) us)) d' d' := by
  have hk : identDo k d = identDo k d' := ha k (by unfold rootPath; simp [rootParts])
  have hn' : nrfParts rest = true := by
    unfold nrfPath at hn; simp only [Bool.and_eq_true] at hn; have := hn.2; unfold nrfParts at this; exact this
  have hw' : wrParts (elabParts T fuel rest) = true := by
    unfold elabPath wrPath at hw
    simp only [elabParts, elabPart, Bool.true_and] at hw
    unfold wrParts wrPart at hw
    simpa using hw
  have hag : Agree (rfParts (elabParts T fuel rest)) d d' := by
    intro x hx
    apply ha x
    unfold rootPath
    simp only [rootParts, Bool.not_false, Bool.and_self, if_true]
    exact List.mem_cons_of_mem _ (rf_sub_parts T fuel rest false true hn' x hx)
  unfold elabPath
  simp only [elabParts, elabPart]
  unfold sPath
  simp only [Bool.false_and, Bool.false_eq_true, if_false]
  unfold sParts
  simp only [Option.isSome_none, Bool.false_and, Bool.false_eq_true, if_false]
  have h1 : sPart (.ident k prop) d d = identDo k d := by unfold sPart; rfl
  have h2 : sPart (.ident k prop) d' d' = identDo k d' := by unfold sPart; rfl
  rw [h1, h2, hk]
  generalize identDo k d' = r
  cases r <;> first
    | rfl
    | (simp only []; (repeat' split) <;> first | rfl | exact ni_parts _ d d' hw' hag _ _ _)

#print axioms C20_noninterference_root
#print axioms C20_noninterference_at
end Mp

namespace Mp
/-- the statement at the level of query text: what the driver (and, by correspondence, `ParseString` + `Do`) computes -/
theorem C20_query_noninterference (T : Tables) (q : Bytes) (inv isF me : Bool) (ops : List PathPart) (us : Bytes)
    (hp : (parse T q).1 = .op (.path (.mk inv true isF me ops us)))
    (hn : nrfPath (.mk inv true isF me ops us) = true)
    (hw : wrPath (elabPath T q.length (.mk inv true isF me ops us)) = true)
    (d d' : GoVal) (ha : ∀ k ∈ rootPath (.mk inv true isF me ops us), identDo k d = identDo k d') :
    sTop T q d = sTop T q d' := by
  unfold sTop
  rw [hp]
  exact C20_noninterference_root T q.length inv isF me ops us hn hw d d' ha

/-- and what `rootTop` (the sorted, duplicate-free list the analysis returns) lists is what `rootPath` collects -/
theorem mem_insertSortedB (x p : Bytes) : ∀ (l : List Bytes), x ∈ insertSortedB p l ↔ x = p ∨ x ∈ l := by
  intro l
  induction l with
  | nil => simp [insertSortedB]
  | cons q qs ih =>
    unfold insertSortedB
    split
    · rename_i h
      have : p = q := by simpa using h
      subst this
      simp
    · split
      · simp
      · simp only [List.mem_cons, ih]
        constructor
        · rintro (h | h | h)
          · exact Or.inr (Or.inl h)
          · exact Or.inl h
          · exact Or.inr (Or.inr h)
        · rintro (h | h | h)
          · exact Or.inr (Or.inl h)
          · exact Or.inl h
          · exact Or.inr (Or.inr h)

theorem mem_sortUniq (x : Bytes) (l : List Bytes) : x ∈ sortUniq l ↔ x ∈ l := by
  unfold sortUniq
  suffices h : ∀ (l acc : List Bytes), x ∈ l.foldl (fun acc y => insertSortedB y acc) acc ↔ x ∈ l ∨ x ∈ acc by
    simpa using h l []
  intro l
  induction l with
  | nil => intro acc; simp
  | cons y ys ih =>
    intro acc
    simp only [List.foldl_cons, ih, mem_insertSortedB, List.mem_cons]
    constructor
    · rintro (h | h | h)
      · exact Or.inl (Or.inr h)
      · exact Or.inl (Or.inl h)
      · exact Or.inr h
    · rintro ((h | h) | h)
      · exact Or.inr (Or.inl h)
      · exact Or.inl h
      · exact Or.inr (Or.inr h)

/-- agreeing on the RETURNED list (sorted, de-duplicated) is agreeing on everything the walk collected -/
theorem rootTop_path_mem (p : PathOp) (x : Bytes) : x ∈ rootTop (.path p) ↔ x ∈ rootPath p := by
  unfold rootTop; exact mem_sortUniq x _

-- non-vacuity: `$.a.Equal($.b)` — the hypotheses hold, the list is [a, b]
def exQ : PathOp := .mk false true false false
  [.ident [97] false [97], .func false [69, 113, 117, 97, 108] [.path (.mk false true false false [.ident [98] false [98]] [])] []] []
example : nrfPath exQ = true := by decide
example : rootPath exQ = [[97], [98]] := by decide

#print axioms C20_query_noninterference
#print axioms mem_sortUniq
end Mp
