import Mp.F64
import Mp.GoVal
/-! encoding/json's Unmarshal into `map[string]any`, for the texts the model takes on: ASCII JSON whose strings hold no escape and
    no control character (anything else is DECLINED, not guessed: escapes, non-ASCII text and invalid UTF-8 have rules of their
    own in Go). Objects become `map[string]any` (a repeated key keeps its last value), arrays `[]any`, numbers float64 through the
    model of strconv.ParseFloat (`Mp.parseFloat`; out of range is an error as in Go), `null` nil. Core-only. -/
namespace Mp.GoJson

inductive J where
  | null
  | bool (b : Bool)
  | num (text : Bytes)
  | str (s : Bytes)
  | arr (xs : List J)
  | obj (kvs : List (Bytes × J))
deriving Inhabited

/-- ok: a value and the rest of the input; bad: Go reports a syntax error; decline: outside what the model takes on -/
inductive R (α : Type) where
  | ok (a : α) (rest : Bytes)
  | bad
  | decline

def isWs (c : UInt8) : Bool := c == 32 || c == 9 || c == 10 || c == 13

def skipWs : Bytes → Bytes
  | [] => []
  | c :: t => if isWs c then skipWs t else c :: t

def digits : Bytes → Bytes × Bytes
  | [] => ([], [])
  | c :: t => if isDig c then let (d, r) := digits t; (c :: d, r) else ([], c :: t)

/-- the number grammar of encoding/json's scanner: -?(0|[1-9][0-9]*)(\.[0-9]+)?([eE][+-]?[0-9]+)? -/
def pNumber (s : Bytes) : R Bytes :=
  let (sign, s1) : Bytes × Bytes := match s with | 45 :: t => ([45], t) | _ => ([], s)
  match s1 with
  | [] => .bad
  | c :: t =>
    if !isDig c then .bad else
    let (intPart, s2) : Bytes × Bytes := if c == 48 then ([48], t) else let (d, r) := digits (c :: t); (d, r)
    let frac : Option (Bytes × Bytes) := match s2 with
      | 46 :: t2 => let (d, r) := digits t2; if d.isEmpty then none else some (46 :: d, r)
      | _ => some ([], s2)
    match frac with
    | none => .bad
    | some (fr, s3) =>
      let ex : Option (Bytes × Bytes) := match s3 with
        | e :: t3 =>
          if e == 101 || e == 69 then
            let (sg, t4) : Bytes × Bytes := match t3 with | 43 :: u => ([43], u) | 45 :: u => ([45], u) | _ => ([], t3)
            let (d, r) := digits t4
            if d.isEmpty then none else some (e :: sg ++ d, r)
          else some ([], s3)
        | [] => some ([], s3)
      match ex with
      | none => .bad
      | some (exb, s4) => .ok (sign ++ intPart ++ fr ++ exb) s4

/-- a string without escapes: the bytes up to the closing quote -/
def pStringBody : Bytes → R Bytes
  | [] => .bad
  | c :: t =>
    if c == 34 then .ok [] t
    else if c == 92 || c.toNat < 32 || c.toNat ≥ 128 then .decline
    else match pStringBody t with
      | .ok s r => .ok (c :: s) r
      | .bad => .bad
      | .decline => .decline

def startsWith (p s : Bytes) : Option Bytes := if p.isPrefixOf s then some (s.drop p.length) else none

mutual
def pValue : Nat → Bytes → R J
  | 0, _ => .decline
  | fuel + 1, s =>
    match skipWs s with
    | [] => .bad
    | 123 :: t => -- {
      (match skipWs t with
       | 125 :: r => .ok (.obj []) r
       | t' => pMembers fuel t' [])
    | 91 :: t => -- [
      (match skipWs t with
       | 93 :: r => .ok (.arr []) r
       | t' => pElems fuel t' [])
    | 34 :: t => (match pStringBody t with | .ok b r => .ok (.str b) r | .bad => .bad | .decline => .decline)
    | c :: t =>
      if c == 116 then (match startsWith [116, 114, 117, 101] (c :: t) with | some r => .ok (.bool true) r | none => .bad)
      else if c == 102 then (match startsWith [102, 97, 108, 115, 101] (c :: t) with | some r => .ok (.bool false) r | none => .bad)
      else if c == 110 then (match startsWith [110, 117, 108, 108] (c :: t) with | some r => .ok .null r | none => .bad)
      else if c == 45 || isDig c then (match pNumber (c :: t) with | .ok b r => .ok (.num b) r | .bad => .bad | .decline => .decline)
      else if c.toNat ≥ 128 then .decline
      else .bad
def pMembers : Nat → Bytes → List (Bytes × J) → R J
  | 0, _, _ => .decline
  | fuel + 1, s, acc =>
    match skipWs s with
    | 34 :: t =>
      (match pStringBody t with
       | .bad => .bad
       | .decline => .decline
       | .ok k r =>
         match skipWs r with
         | 58 :: r2 =>
           (match pValue fuel r2 with
            | .bad => .bad
            | .decline => .decline
            | .ok v r3 =>
              match skipWs r3 with
              | 44 :: r4 => pMembers fuel r4 (acc ++ [(k, v)])
              | 125 :: r4 => .ok (.obj (acc ++ [(k, v)])) r4
              | c :: _ => if c.toNat ≥ 128 then .decline else .bad
              | [] => .bad)
         | c :: _ => if c.toNat ≥ 128 then .decline else .bad
         | [] => .bad)
    | c :: _ => if c.toNat ≥ 128 then .decline else .bad
    | [] => .bad
def pElems : Nat → Bytes → List J → R J
  | 0, _, _ => .decline
  | fuel + 1, s, acc =>
    match pValue fuel s with
    | .bad => .bad
    | .decline => .decline
    | .ok v r =>
      match skipWs r with
      | 44 :: r2 => pElems fuel r2 (acc ++ [v])
      | 93 :: r2 => .ok (.arr (acc ++ [v])) r2
      | c :: _ => if c.toNat ≥ 128 then .decline else .bad
      | [] => .bad
end

/-- the whole text: one value, then white space only -/
def parse (s : Bytes) : R J :=
  match pValue (s.length + 2) s with
  | .ok v r => if (skipWs r).isEmpty then .ok v [] else (if (skipWs r).any (fun c => c.toNat ≥ 128) then .decline else .bad)
  | .bad => .bad
  | .decline => .decline

/-- a repeated key keeps its last value -/
def dedupLast (kvs : List (Bytes × GoVal)) : List (Bytes × GoVal) :=
  kvs.foldl (fun acc kv => acc.filter (fun p => p.1 != kv.1) ++ [kv]) []

mutual
/-- none: a number that float64 cannot hold (an error in Go) -/
def toGo : J → Option GoVal
  | .null => some .nil
  | .bool b => some (.bool false b)
  | .num t => (match parseFloat t with
    | .fin n m e => some (.f64 false (.fin n m e))
    | _ => none)
  | .str s => some (.str false s)
  | .arr xs => (toGoList xs).map (fun l => .slice true false l)
  | .obj kvs => (toGoMembers kvs).map (fun l => let d := dedupLast l; .map .str false (d.map (·.1)) (d.map (·.2)))
def toGoList : List J → Option (List GoVal)
  | [] => some []
  | x :: xs => match toGo x, toGoList xs with | some a, some b => some (a :: b) | _, _ => none
def toGoMembers : List (Bytes × J) → Option (List (Bytes × GoVal))
  | [] => some []
  | (k, x) :: xs => match toGo x, toGoMembers xs with | some a, some b => some ((k, a) :: b) | _, _ => none
end

/-- json.Unmarshal(text, &map[string]any{}): some (some m) the map; some none an error; none declined -/
def unmarshalObject (s : Bytes) : Option (Option GoVal) :=
  match parse s with
  | .decline => none
  | .bad => some none
  | .ok j _ =>
    match j with
    | .obj _ => some (toGo j)
    | .null => (match toGo j with | some _ => some (some (.map .str false [] [])) | none => some none)
    | _ =>
      -- the text is valid JSON of another kind: an error (after the syntax check, which also covers numbers out of range? no: the
      -- range of a number is only looked at when it is stored, and nothing is stored here)
      some none

end Mp.GoJson
