/-! Prototype: C11 — key lookup in a map does not depend on the order in which the map is iterated.
    Abstract keys `κ` with a strict total order `lt` (bytewise `<` in the model) and a match predicate `m`
    (`EqualFold` with the identifier); `exact` is `==` with the identifier. Core-only. -/
namespace PermP

variable {κ ν : Type} (lt : κ → κ → Bool) (exact m : κ → Bool)

/-- helpers.go findMapKey on the list of entries in iteration order -/
def findKey (ps : List (κ × ν)) : Option (κ × ν) :=
  match ps.find? (fun p => exact p.1) with
  | some p => some p
  | none =>
    match ps.filter (fun p => m p.1) with
    | [] => none
    | c :: cs => some (cs.foldl (fun best p => if lt p.1 best.1 then p else best) c)

structure Ord : Prop where
  irrefl : ∀ a, lt a a = false
  trans : ∀ a b c, lt a b = true → lt b c = true → lt a c = true
  total : ∀ a b, a ≠ b → lt a b = true ∨ lt b a = true

/-- `x` is a least element of `l` (by key) -/
def Least (x : κ × ν) (l : List (κ × ν)) : Prop := x ∈ l ∧ ∀ y ∈ l, y = x ∨ lt x.1 y.1 = true

theorem foldl_least (ho : Ord lt) : ∀ (cs : List (κ × ν)) (c : κ × ν),
    (∀ y ∈ cs, y.1 ≠ c.1) → (cs.Pairwise (fun a b => a.1 ≠ b.1)) →
    Least lt (cs.foldl (fun best p => if lt p.1 best.1 then p else best) c) (c :: cs) := by
  intro cs
  induction cs with
  | nil => intro c _ _; exact ⟨List.mem_cons_self, fun y hy => by simp at hy; exact Or.inl hy⟩
  | cons p cs ih =>
    intro c hne hpw
    simp only [List.foldl_cons]
    have hpw' := List.pairwise_cons.mp hpw
    by_cases hlt : lt p.1 c.1 = true
    · simp only [hlt, if_true]
      have := ih p (fun y hy => (hpw'.1 y hy).symm) hpw'.2
      obtain ⟨hm, hl⟩ := this
      refine ⟨?_, ?_⟩
      · rcases List.mem_cons.mp hm with h | h
        · rw [h]; exact List.mem_cons_of_mem _ List.mem_cons_self
        · exact List.mem_cons_of_mem _ (List.mem_cons_of_mem _ h)
      · intro y hy
        rcases List.mem_cons.mp hy with h | h
        · -- y = c : the result is ≤ p < c
          subst h
          right
          rcases hl p List.mem_cons_self with h2 | h2
          · rw [← h2]; exact hlt
          · exact ho.trans _ _ _ h2 hlt
        · exact hl y h
    · have hlt' : lt p.1 c.1 = false := by simpa using hlt
      simp only [hlt', Bool.false_eq_true, if_false]
      have := ih c (fun y hy => hne y (List.mem_cons_of_mem _ hy)) hpw'.2
      obtain ⟨hm, hl⟩ := this
      refine ⟨?_, ?_⟩
      · rcases List.mem_cons.mp hm with h | h
        · rw [h]; exact List.mem_cons_self
        · exact List.mem_cons_of_mem _ (List.mem_cons_of_mem _ h)
      · intro y hy
        rcases List.mem_cons.mp hy with h | h
        · exact hl y (by rw [h]; exact List.mem_cons_self)
        · rcases List.mem_cons.mp h with h2 | h2
          · -- y = p : c < p since ¬ p < c and keys differ
            subst h2
            have hcp : lt c.1 y.1 = true := by
              rcases ho.total c.1 y.1 (hne y List.mem_cons_self).symm with h3 | h3
              · exact h3
              · rw [h3] at hlt'; cases hlt'
            rcases hl c List.mem_cons_self with h4 | h4
            · right; rw [← h4]; exact hcp
            · right; exact ho.trans _ _ _ h4 hcp
          · exact hl y (List.mem_cons_of_mem _ h2)

theorem least_unique (ho : Ord lt) (l : List (κ × ν)) (hd : l.Pairwise (fun a b => a.1 ≠ b.1)) (x y : κ × ν)
    (hx : Least lt x l) (hy : Least lt y l) : x = y := by
  rcases hx.2 y hy.1 with h | h
  · exact h.symm
  · rcases hy.2 x hx.1 with h2 | h2
    · exact h2
    · have := ho.trans _ _ _ h h2
      rw [ho.irrefl] at this; cases this

theorem least_perm (l l' : List (κ × ν)) (hp : l.Perm l') (x : κ × ν) (hx : Least lt x l) : Least lt x l' :=
  ⟨hp.mem_iff.mp hx.1, fun y hy => hx.2 y (hp.mem_iff.mpr hy)⟩


theorem find_unique (p : κ × ν → Bool) (l : List (κ × ν)) (hu : ∀ a ∈ l, ∀ b ∈ l, p a = true → p b = true → a = b) (x : κ × ν) :
    l.find? p = some x ↔ (x ∈ l ∧ p x = true) := by
  constructor
  · intro h; exact ⟨List.mem_of_find?_eq_some h, List.find?_some h⟩
  · intro ⟨hm, hp⟩
    cases hf : l.find? p with
    | none => exact absurd hp (by simpa using List.find?_eq_none.mp hf x hm)
    | some y =>
      have := hu y (List.mem_of_find?_eq_some hf) x hm (List.find?_some hf) hp
      rw [this]

theorem find_perm (p : κ × ν → Bool) (l l' : List (κ × ν)) (hp : l.Perm l')
    (hu : ∀ a ∈ l, ∀ b ∈ l, p a = true → p b = true → a = b) : l.find? p = l'.find? p := by
  have hu' : ∀ a ∈ l', ∀ b ∈ l', p a = true → p b = true → a = b :=
    fun a ha b hb => hu a (hp.mem_iff.mpr ha) b (hp.mem_iff.mpr hb)
  cases hf : l.find? p with
  | some x =>
    have := (find_unique p l hu x).mp hf
    exact ((find_unique p l' hu' x).mpr ⟨hp.mem_iff.mp this.1, this.2⟩).symm
  | none =>
    cases hf' : l'.find? p with
    | none => rfl
    | some y =>
      have := (find_unique p l' hu' y).mp hf'
      have h2 := (find_unique p l hu y).mpr ⟨hp.mem_iff.mpr this.1, this.2⟩
      rw [hf] at h2; cases h2

/-- C11: the entry that key lookup returns does not depend on the iteration order of the map -/
theorem findKey_perm (ho : Ord lt) (ps ps' : List (κ × ν)) (hp : ps.Perm ps')
    (hd : ps.Pairwise (fun a b => a.1 ≠ b.1))
    (hex : ∀ a b : κ, exact a = true → exact b = true → a = b) :
    findKey lt exact m ps = findKey lt exact m ps' := by
  have hd' : ps'.Pairwise (fun a b => a.1 ≠ b.1) := hp.pairwise hd (fun h => fun e => h e.symm)
  have hkey : ∀ a ∈ ps, ∀ b ∈ ps, a.1 = b.1 → a = b := by
    intro a ha b hb hab
    by_cases heq : a = b
    · exact heq
    · exfalso
      rcases List.mem_iff_getElem.mp ha with ⟨i, hi, rfl⟩
      rcases List.mem_iff_getElem.mp hb with ⟨j, hj, rfl⟩
      have hij : i ≠ j := fun h => heq (by subst h; rfl)
      rcases Nat.lt_or_gt_of_ne hij with h | h
      · exact (List.pairwise_iff_getElem.mp hd i j hi hj h) hab
      · exact (List.pairwise_iff_getElem.mp hd j i hj hi h) hab.symm
  unfold findKey
  have hfind := find_perm (fun p => exact p.1) ps ps' hp
    (fun a ha b hb h1 h2 => hkey a ha b hb (hex a.1 b.1 h1 h2))
  rw [← hfind]
  cases ps.find? (fun p => exact p.1) with
  | some p => rfl
  | none =>
    simp only []
    have hpf : (ps.filter (fun p => m p.1)).Perm (ps'.filter (fun p => m p.1)) := hp.filter _
    have hdf : (ps.filter (fun p => m p.1)).Pairwise (fun a b => a.1 ≠ b.1) := hd.filter _
    have hdf' : (ps'.filter (fun p => m p.1)).Pairwise (fun a b => a.1 ≠ b.1) := hd'.filter _
    cases hc : ps.filter (fun p => m p.1) with
    | nil =>
      rw [hc] at hpf
      have := hpf.symm.eq_nil
      rw [this]
    | cons c cs =>
      cases hc' : ps'.filter (fun p => m p.1) with
      | nil =>
        rw [hc'] at hpf
        have := hpf.eq_nil
        rw [hc] at this; cases this
      | cons c' cs' =>
        simp only []
        rw [hc] at hpf hdf
        rw [hc'] at hpf hdf'
        have h1 := foldl_least lt ho cs c (fun y hy => ((List.pairwise_cons.mp hdf).1 y hy).symm) (List.pairwise_cons.mp hdf).2
        have h2 := foldl_least lt ho cs' c' (fun y hy => ((List.pairwise_cons.mp hdf').1 y hy).symm) (List.pairwise_cons.mp hdf').2
        have h1' := least_perm lt _ _ hpf _ h1
        rw [least_unique lt ho _ hdf' _ _ h1' h2]

#print axioms findKey_perm
end PermP
