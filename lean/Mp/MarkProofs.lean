import Mp.Parse
/-! C19 — the `?` mark of a key is ONE BYTE at the end of the token, whatever bytes the name is made of (ASCII, multi-byte UTF-8,
    invalid bytes): the parser model's split (`Mp.splitMark`, used by `Mp/Parse.lean` for every key token) gives back exactly the name and the mark. Core-only. -/
namespace Mp

/-- a marked key: the name comes back whole, byte for byte -/
theorem splitMark_marked (name : Bytes) : splitMark (name ++ [63]) = (name, true) := by
  simp [splitMark]

/-- an unmarked key whose last byte is not `?` -/
theorem splitMark_unmarked (name : Bytes) (h : name.getLast? ≠ some 63) : splitMark name = (name, false) := by
  simp [splitMark, h]

/-- the name of `größe?` is `größe` (13 bytes: the two `ö`… are two bytes each, `ß` two) -/
example : splitMark ([103, 114, 195, 182, 195, 159, 101] ++ [63]) = ([103, 114, 195, 182, 195, 159, 101], true) := splitMark_marked _

#print axioms splitMark_marked
#print axioms splitMark_unmarked
end Mp
