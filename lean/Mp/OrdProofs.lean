/-! Prototype: bytewise `<` on Go strings (lexicographic on the byte lists) is a strict total order — needed by
    C11 (least key) and C20 (sorted output). Stated for any element type with a strict total order. Core-only. -/
namespace OrdP

variable {α : Type} [DecidableEq α] (lt : α → α → Bool)

def lexLt : List α → List α → Bool
  | [], [] => false
  | [], _ :: _ => true
  | _ :: _, [] => false
  | a :: as, b :: bs => if lt a b then true else if lt b a then false else lexLt as bs

structure Ord : Prop where
  irrefl : ∀ a, lt a a = false
  trans : ∀ a b c, lt a b = true → lt b c = true → lt a c = true
  total : ∀ a b, a ≠ b → lt a b = true ∨ lt b a = true

theorem asymm (ho : Ord lt) (a b : α) (h : lt a b = true) : lt b a = false := by
  cases hb : lt b a with
  | false => rfl
  | true => have := ho.trans a b a h hb; rw [ho.irrefl] at this; cases this

theorem eq_of_not_lt (ho : Ord lt) (a b : α) (h1 : lt a b = false) (h2 : lt b a = false) : a = b := by
  by_cases h : a = b
  · exact h
  · rcases ho.total a b h with h3 | h3
    · rw [h1] at h3; cases h3
    · rw [h2] at h3; cases h3

theorem lex_irrefl (ho : Ord lt) : ∀ l : List α, lexLt lt l l = false := by
  intro l
  induction l with
  | nil => rfl
  | cons a as ih => simp [lexLt, ho.irrefl, ih]

theorem lex_total (ho : Ord lt) : ∀ l m : List α, l ≠ m → lexLt lt l m = true ∨ lexLt lt m l = true := by
  intro l
  induction l with
  | nil =>
    intro m h
    cases m with
    | nil => exact absurd rfl h
    | cons b bs => left; rfl
  | cons a as ih =>
    intro m h
    cases m with
    | nil => right; rfl
    | cons b bs =>
      simp only [lexLt]
      cases hab : lt a b with
      | true => left; simp
      | false =>
        cases hba : lt b a with
        | true => right; simp
        | false =>
          have heq := eq_of_not_lt lt ho a b hab hba
          subst heq
          have hne : as ≠ bs := fun e => h (by rw [e])
          simpa using ih bs hne

theorem lex_trans (ho : Ord lt) : ∀ l m n : List α, lexLt lt l m = true → lexLt lt m n = true → lexLt lt l n = true := by
  intro l
  induction l with
  | nil =>
    intro m n h1 h2
    cases m with
    | nil => simp [lexLt] at h1
    | cons b bs =>
      cases n with
      | nil => simp [lexLt] at h2
      | cons c cs => rfl
  | cons a as ih =>
    intro m n h1 h2
    cases m with
    | nil => simp [lexLt] at h1
    | cons b bs =>
      cases n with
      | nil => simp [lexLt] at h2
      | cons c cs =>
        simp only [lexLt] at h1 h2 ⊢
        cases hab : lt a b with
        | true =>
          -- a < b
          cases hbc : lt b c with
          | true => simp [ho.trans a b c hab hbc]
          | false =>
            rw [hbc] at h2
            cases hcb : lt c b with
            | true => rw [hcb] at h2; simp at h2
            | false =>
              have := eq_of_not_lt lt ho b c hbc hcb
              subst this
              simp [hab]
        | false =>
          rw [hab] at h1
          cases hba : lt b a with
          | true => rw [hba] at h1; simp at h1
          | false =>
            rw [hba] at h1
            have := eq_of_not_lt lt ho a b hab hba
            subst this
            simp only [Bool.false_eq_true, if_false] at h1
            cases hac : lt a c with
            | true => simp
            | false =>
              rw [hac] at h2
              cases hca : lt c a with
              | true => rw [hca] at h2; simp at h2
              | false =>
                rw [hca] at h2
                simp only [Bool.false_eq_true, if_false] at h2 ⊢
                exact ih bs cs h1 h2

/-- lexicographic order on lists over a strict total order is a strict total order -/
theorem lex_ord (ho : Ord lt) : (∀ l, lexLt lt l l = false) ∧
    (∀ l m n, lexLt lt l m = true → lexLt lt m n = true → lexLt lt l n = true) ∧
    (∀ l m, l ≠ m → lexLt lt l m = true ∨ lexLt lt m l = true) :=
  ⟨lex_irrefl lt ho, lex_trans lt ho, lex_total lt ho⟩

/-- bytes: `<` on UInt8 -/
theorem byte_ord : Ord (fun (a b : UInt8) => decide (a < b)) where
  irrefl a := by simp
  trans a b c h1 h2 := by
    simp only [decide_eq_true_eq] at h1 h2 ⊢
    exact UInt8.lt_trans h1 h2
  total a b h := by
    simp only [decide_eq_true_eq]
    rcases UInt8.lt_or_lt_of_ne h with h1 | h1
    · exact Or.inl h1
    · exact Or.inr h1

#print axioms lex_ord
#print axioms byte_ord
end OrdP
