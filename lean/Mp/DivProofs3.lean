import Mp.DivProofs2
namespace Mp
namespace Dec

theorem abs_toRat (d : Dec) : d.abs.toRat = ((d.coef.natAbs : Int) : ℚ) * (10 : ℚ) ^ d.exp := by
  simp [abs, toRat]

/-- the rounding test of DivRound is the integer test `2|r| < |bb|` -/
theorem round_test (d d2 : Dec) (prec : Int) (r : Int) :
    (cmp ⟨(r.natAbs : Int) * 2, (if d.exp - d2.exp + prec < 0 then d.exp else -prec + d2.exp) + prec⟩ d2.abs = .lt)
      ↔ 2 * (r.natAbs : Int) < ((qrArgs d d2 prec).2.natAbs : Int) := by
  rw [cmp_spec, compare_lt_iff_lt, abs_toRat]
  unfold qrArgs toRat
  simp only
  split
  · rename_i he
    obtain ⟨k, hk⟩ : ∃ k : ℕ, -(d.exp - d2.exp + prec) = k := ⟨(-(d.exp - d2.exp + prec)).toNat, by omega⟩
    simp only [hk, Int.toNat_natCast]
    rw [Int.natAbs_mul, Int.natAbs_pow]
    have h10n : (10 : Int).natAbs = 10 := rfl
    rw [h10n]
    generalize r.natAbs = R
    generalize d2.coef.natAbs = N
    have hd2 : d2.exp = (k : Int) + (d.exp + prec) := by omega
    rw [hd2, zpow_add₀ ten_ne (k : Int) (d.exp + prec), zpow_natCast]
    have hp := ten_pos (d.exp + prec)
    constructor
    · intro h
      have h2 : ((R : ℚ) * 2) * (10 : ℚ) ^ (d.exp + prec) < ((N : ℚ) * 10 ^ k) * (10 : ℚ) ^ (d.exp + prec) := by
        push_cast at h; linarith
      have h3 := lt_of_mul_lt_mul_right h2 (le_of_lt hp)
      have h4 : ((2 * R : Nat) : ℚ) < ((N * 10 ^ k : Nat) : ℚ) := by push_cast; linarith
      have h5 : 2 * R < N * 10 ^ k := by exact_mod_cast h4
      exact_mod_cast h5
    · intro h
      have h5 : 2 * R < N * 10 ^ k := by exact_mod_cast h
      have h4 : ((2 * R : Nat) : ℚ) < ((N * 10 ^ k : Nat) : ℚ) := by exact_mod_cast h5
      push_cast at h4
      have h3 := mul_lt_mul_of_pos_right (by linarith : (R : ℚ) * 2 < (N : ℚ) * 10 ^ k) hp
      push_cast
      linarith
  · rename_i he
    have he2 : -prec + d2.exp + prec = d2.exp := by omega
    rw [he2]
    generalize r.natAbs = R
    generalize d2.coef.natAbs = N
    have hp := ten_pos d2.exp
    constructor
    · intro h
      have h2 : ((R : ℚ) * 2) * (10 : ℚ) ^ d2.exp < (N : ℚ) * (10 : ℚ) ^ d2.exp := by push_cast at h; linarith
      have h3 := lt_of_mul_lt_mul_right h2 (le_of_lt hp)
      have h4 : ((2 * R : Nat) : ℚ) < ((N : Nat) : ℚ) := by push_cast; linarith
      have h5 : 2 * R < N := by exact_mod_cast h4
      exact_mod_cast h5
    · intro h
      have h5 : 2 * R < N := by exact_mod_cast h
      have h4 : ((2 * R : Nat) : ℚ) < ((N : Nat) : ℚ) := by exact_mod_cast h5
      push_cast at h4
      have h3 := mul_lt_mul_of_pos_right (by linarith : (R : ℚ) * 2 < (N : ℚ)) hp
      push_cast
      linarith

/-- DivRound is the integer core applied to the scaled operands -/
theorem divRound_eq (d d2 : Dec) (prec : Int) :
    divRound d d2 prec = ⟨roundQuot (qrArgs d d2 prec).1 (qrArgs d d2 prec).2, -prec⟩ := by
  unfold divRound
  rw [quoRem_eq]
  simp only
  have ht := round_test d d2 prec (Int.tmod (qrArgs d d2 prec).1 (qrArgs d d2 prec).2)
  have hs := qrArgs_sign d d2 prec
  unfold roundQuot
  simp only
  generalize hc : cmp ⟨((Int.tmod (qrArgs d d2 prec).1 (qrArgs d d2 prec).2).natAbs : Int) * 2,
        (if d.exp - d2.exp + prec < 0 then d.exp else -prec + d2.exp) + prec⟩ d2.abs = c at ht
  by_cases hlt : 2 * ((Int.tmod (qrArgs d d2 prec).1 (qrArgs d d2 prec).2).natAbs : Int) < ((qrArgs d d2 prec).2.natAbs : Int)
  · have hcl : c = .lt := ht.mpr hlt
    subst hcl
    simp only [hlt, if_true]
  · have hne : c ≠ .lt := fun h => hlt (ht.mp h)
    simp only [hlt, if_false, hs.1, hs.2]
    cases c with
    | lt => exact absurd rfl hne
    | eq => split <;> simp [sub, add, rescalePair]
    | gt => split <;> simp [sub, add, rescalePair]

/-- C04: Divide (precision 16 in mpath; any precision here) is within half a unit of the last place of the exact quotient -/
theorem divRound_bound (d d2 : Dec) (prec : Int) (h : d2.coef ≠ 0) :
    |(divRound d d2 prec).toRat - d.toRat / d2.toRat| ≤ 1 / 2 * (10 : ℚ) ^ (-prec) := by
  rw [divRound_eq]
  have hb := roundQuot_bound (qrArgs d d2 prec).1 (qrArgs d d2 prec).2 (qrArgs_den_ne d d2 prec h)
  have hr := qrArgs_ratio d d2 prec h
  have hp : (0 : ℚ) < (10 : ℚ) ^ (-prec) := ten_pos _
  have hq : d.toRat / d2.toRat = ((qrArgs d d2 prec).1 : ℚ) / (qrArgs d d2 prec).2 * (10 : ℚ) ^ (-prec) := by
    rw [hr, mul_assoc, ← zpow_add₀ ten_ne]
    simp
  rw [hq]
  unfold toRat
  simp only
  rw [← sub_mul, abs_mul, abs_of_pos hp]
  exact mul_le_mul_of_nonneg_right hb (le_of_lt hp)

theorem div_bound (a b : Dec) (h : b.coef ≠ 0) : |(a.div b).toRat - a.toRat / b.toRat| ≤ 1 / 2 * (10 : ℚ) ^ (-16 : Int) :=
  divRound_bound a b 16 h

#print axioms div_bound
end Dec
end Mp
