import Mp.JsonProofs
import Mp.ProofsL2
/-! C10 — "a document produced inside the query by ParseJSON from its serialised text behaves like the document itself": on the
    model, `ParseJSON` of the compact JSON text of a logical document IS the document in its `map[string]any` / `[]any` carrier
    (`L2.render`, the carrier the C01 refinement theorem is about) - for number-free documents of any size whose keys are distinct
    within each object and whose strings need no escape. Whatever is proved about queries on that carrier therefore holds for the
    document parsed inside the query. Core-only. -/
namespace Mp.GoJson
open Mp.L2 (Doc)

mutual
/-- the JSON value of a logical document -/
def ofDoc : Doc → J
  | .null => .null
  | .bool b => .bool b
  | .num d => .num d.toBytes
  | .str s => .str s
  | .arr xs => .arr (ofDocs xs)
  | .obj ks vs => .obj (ks.zip (ofDocs vs))
def ofDocs : List Doc → List J
  | [] => []
  | d :: ds => ofDoc d :: ofDocs ds
end

mutual
/-- the documents the theorem speaks about -/
def WF : Doc → Prop
  | .null => True
  | .bool _ => True
  | .num _ => False
  | .str s => Safe s
  | .arr xs => WFs xs
  | .obj ks vs => ks.length = vs.length ∧ ks.Nodup ∧ (∀ k ∈ ks, Safe k) ∧ WFs vs
def WFs : List Doc → Prop
  | [] => True
  | d :: ds => WF d ∧ WFs ds
end

theorem ofDocs_length (ds : List Doc) : (ofDocs ds).length = ds.length := by
  induction ds with
  | nil => rfl
  | cons d ds ih => simp [ofDocs, ih]

/-- distinct keys: nothing is dropped -/
theorem dedupLast_nodup : ∀ (kvs acc : List (Bytes × GoVal)), (acc ++ kvs).map (·.1) |>.Nodup →
    kvs.foldl (fun acc kv => acc.filter (fun p => p.1 != kv.1) ++ [kv]) acc = acc ++ kvs := by
  intro kvs
  induction kvs with
  | nil => intro acc _; simp
  | cons kv rest ih =>
    intro acc h
    simp only [List.foldl_cons]
    have hfil : acc.filter (fun p => p.1 != kv.1) = acc := by
      apply List.filter_eq_self.mpr
      intro p hp
      have hn : (acc ++ kv :: rest).map (·.1) |>.Nodup := h
      rw [List.map_append, List.map_cons] at hn
      have := (List.nodup_append.mp hn).2.2 p.1 (List.mem_map.mpr ⟨p, hp, rfl⟩) kv.1 List.mem_cons_self
      simpa using this
    rw [hfil]
    have := ih (acc ++ [kv]) (by simpa [List.append_assoc] using h)
    simpa [List.append_assoc] using this

mutual
theorem good_ofDoc (d : Doc) (h : WF d) : Good (ofDoc d) := by
  cases d with
  | null => simp [ofDoc, Good]
  | bool b => simp [ofDoc, Good]
  | num x => simp [WF] at h
  | str s => simpa [ofDoc, Good, WF] using h
  | arr xs => simp only [WF] at h; simp only [ofDoc, Good]; exact good_ofDocs xs h
  | obj ks vs =>
    simp only [WF] at h
    simp only [ofDoc, Good]
    exact good_members ks vs h.2.2.1 h.2.2.2
termination_by structural d
theorem good_ofDocs (ds : List Doc) (h : WFs ds) : GoodList (ofDocs ds) := by
  cases ds with
  | nil => simp [ofDocs, GoodList]
  | cons d ds => simp only [WFs] at h; simp only [ofDocs, GoodList]; exact ⟨good_ofDoc d h.1, good_ofDocs ds h.2⟩
termination_by structural ds
theorem good_members (ks : List Bytes) (vs : List Doc) (hk : ∀ k ∈ ks, Safe k) (h : WFs vs) : GoodMembers (ks.zip (ofDocs vs)) := by
  cases vs with
  | nil => simp [ofDocs, GoodMembers]
  | cons v vs =>
    cases ks with
    | nil => simp [GoodMembers]
    | cons k ks =>
      simp only [WFs] at h
      simp only [ofDocs, List.zip_cons_cons, GoodMembers]
      exact ⟨hk k List.mem_cons_self, good_ofDoc v h.1, good_members ks vs (fun x hx => hk x (List.mem_cons_of_mem _ hx)) h.2⟩
termination_by structural vs
end

mutual
/-- the conversion of the parsed JSON is the map / slice carrier of the document -/
theorem toGo_ofDoc (d : Doc) (h : WF d) : toGo (ofDoc d) = some (L2.render d) := by
  cases d with
  | null => simp [ofDoc, toGo, L2.render]
  | bool b => simp [ofDoc, toGo, L2.render]
  | num x => simp [WF] at h
  | str s => simp [ofDoc, toGo, L2.render]
  | arr xs =>
    simp only [WF] at h
    simp only [ofDoc, toGo, L2.render, toGoList_ofDocs xs h, Option.map_some]
  | obj ks vs =>
    simp only [WF] at h
    obtain ⟨hlen, hnd, hsafe, hw⟩ := h
    simp only [ofDoc, toGo, L2.render]
    rw [toGoMembers_zip ks vs hw]
    simp only [Option.map_some]
    have hl2 : ks.length = (L2.renderList vs).length := by rw [L2.renderList_eq_map]; simpa using hlen
    have hkeys : (ks.zip (L2.renderList vs)).map (·.1) = ks := by
      rw [List.map_fst_zip]; omega
    have hded : dedupLast (ks.zip (L2.renderList vs)) = ks.zip (L2.renderList vs) := by
      unfold dedupLast
      have := dedupLast_nodup (ks.zip (L2.renderList vs)) [] (by simpa [hkeys] using hnd)
      simpa using this
    rw [hded, hkeys]
    have hvals : (ks.zip (L2.renderList vs)).map (·.2) = L2.renderList vs := by
      rw [List.map_snd_zip]; omega
    rw [hvals]
termination_by structural d
theorem toGoList_ofDocs (ds : List Doc) (h : WFs ds) : toGoList (ofDocs ds) = some (L2.renderList ds) := by
  cases ds with
  | nil => simp [ofDocs, toGoList, L2.renderList]
  | cons d ds =>
    simp only [WFs] at h
    simp only [ofDocs, toGoList, L2.renderList, toGo_ofDoc d h.1, toGoList_ofDocs ds h.2]
termination_by structural ds
theorem toGoMembers_zip (ks : List Bytes) (vs : List Doc) (h : WFs vs) : toGoMembers (ks.zip (ofDocs vs)) = some (ks.zip (L2.renderList vs)) := by
  cases vs with
  | nil => simp [ofDocs, toGoMembers, L2.renderList]
  | cons v vs =>
    cases ks with
    | nil => simp [toGoMembers]
    | cons k ks =>
      simp only [WFs] at h
      simp only [ofDocs, List.zip_cons_cons, toGoMembers, L2.renderList, toGo_ofDoc v h.1, toGoMembers_zip ks vs h.2]
termination_by structural vs
end

/-- **C10, ParseJSON**: parsing the compact JSON text of a document (an object) gives the document in its map / slice carrier -/
theorem parseJSON_of_document (ks : List Bytes) (vs : List Doc) (h : WF (.obj ks vs)) :
    unmarshalObject (render (ofDoc (.obj ks vs))) = some (some (L2.render (.obj ks vs))) := by
  have hg := good_ofDoc (.obj ks vs) h
  have : ofDoc (.obj ks vs) = .obj (ks.zip (ofDocs vs)) := by simp [ofDoc]
  rw [this] at hg ⊢
  rw [unmarshal_render_object _ hg, ← this, toGo_ofDoc _ h]

/-- … at the level of the function model: `text.ParseJSON()` returns that carrier -/
theorem parseJSON_func (ks : List Bytes) (vs : List Doc) (h : WF (.obj ks vs)) :
    pureFunc "ParseJSON" [] (.str false (render (ofDoc (.obj ks vs)))) = some (.ok (L2.render (.obj ks vs))) := by
  have hne : (render (ofDoc (.obj ks vs))).isEmpty = false := by
    have : ofDoc (.obj ks vs) = .obj (ks.zip (ofDocs vs)) := by simp [ofDoc]
    rw [this]
    cases hz : ks.zip (ofDocs vs) with
    | nil => simp [render]
    | cons kv kvs => obtain ⟨k, v⟩ := kv; simp [render]
  unfold pureFunc
  simp only [List.isEmpty_nil, Bool.not_true, Bool.false_eq_true, if_false, isEmptyValue, RV.of, hne, parseJSON_of_document ks vs h]

example : WF (.obj [[107], [113]] [.arr [.bool true, .null, .str [97, 98]], .obj [] []]) := by
  simp [WF, WFs, Safe, SafeByte]

#print axioms toGo_ofDoc
#print axioms parseJSON_of_document
#print axioms parseJSON_func
end Mp.GoJson
