/-! Prototype model of text/scanner as configured by mpath (mpath.go). Core-only. -/
namespace Mp

abbrev Bytes := List UInt8

structure Tables where
  isPrint : Nat → Bool
  isSpace : Nat → Bool

/-- ASCII-complete approximation used by the prototype driver (the real driver loads Go's tables). -/
def protoTables : Tables where
  isPrint r := (0x20 ≤ r && r < 0x7F) || (r ≥ 0xA1 && r != 0xAD && r != 0xFEFF && r != 0x2028 && r != 0x2029)
  isSpace r := r == 0x20 || (9 ≤ r && r ≤ 13) || r == 0x85 || r == 0xA0 || r == 0x2028 || r == 0x2029

def invalidRunes : List Nat := "'\"()[]{}@$&.,=><|!;/*".toList.map Char.toNat

/-- Go's utf8.DecodeRune on the remaining bytes: (rune, width, isEncodingError). Empty input handled by caller. -/
def decodeRune (p : Bytes) : Nat × Nat × Bool :=
  match p with
  | [] => (0xFFFD, 0, true)
  | b0 :: t =>
    let p0 := b0.toNat
    if p0 < 0x80 then (p0, 1, false)
    else if p0 < 0xC2 || p0 > 0xF4 then (0xFFFD, 1, true)
    else
      let sz := if p0 < 0xE0 then 2 else if p0 < 0xF0 then 3 else 4
      let lo := if p0 == 0xE0 then 0xA0 else if p0 == 0xF0 then 0x90 else 0x80
      let hi := if p0 == 0xED then 0x9F else if p0 == 0xF4 then 0x8F else 0xBF
      match t with
      | [] => (0xFFFD, 1, true)
      | b1 :: t1 =>
        let c1 := b1.toNat
        if c1 < lo || hi < c1 then (0xFFFD, 1, true)
        else if sz == 2 then ((p0 % 32) * 64 + c1 % 64, 2, false)
        else match t1 with
          | [] => (0xFFFD, 1, true)
          | b2 :: t2 =>
            let c2 := b2.toNat
            if c2 < 0x80 || 0xBF < c2 then (0xFFFD, 1, true)
            else if sz == 3 then ((p0 % 16) * 4096 + (c1 % 64) * 64 + c2 % 64, 3, false)
            else match t2 with
              | [] => (0xFFFD, 1, true)
              | b3 :: _ =>
                let c3 := b3.toNat
                if c3 < 0x80 || 0xBF < c3 then (0xFFFD, 1, true)
                else ((p0 % 8) * 262144 + (c1 % 64) * 4096 + (c2 % 64) * 64 + c3 % 64, 4, false)

/-- scanner state: `ch` is the one-character look-ahead already read (−1 = EOF, −2 = nothing read yet),
    `chRaw` its bytes, `rest` what follows, `errs` the number of diagnostics text/scanner has reported,
    `tok` the bytes of the token being collected. -/
structure Sc where
  ch : Int
  chRaw : Bytes
  rest : Bytes
  errs : Nat
  tok : Bytes
deriving Repr

def Sc.init (src : Bytes) : Sc := { ch := -2, chRaw := [], rest := src, errs := 0, tok := [] }

/-- `s.next()`: append the old look-ahead to the token text, read a new one. -/
def Sc.next (s : Sc) : Sc :=
  let tok := s.tok ++ s.chRaw
  match s.rest with
  | [] => { s with ch := -1, chRaw := [], tok := tok }
  | _ =>
    let (r, w, bad) := decodeRune s.rest
    let e := (if bad then 1 else 0) + (if r == 0 && !bad then 1 else 0)
    { ch := r, chRaw := s.rest.take w, rest := s.rest.drop w, errs := s.errs + e, tok := tok }

def Sc.err (s : Sc) : Sc := { s with errs := s.errs + 1 }

/-- `s.Peek()` -/
def Sc.peekInit (s : Sc) : Sc :=
  if s.ch == -2 then
    let s1 := { s with chRaw := [] }.next
    if s1.ch == 0xFEFF then { s1 with chRaw := [] }.next else s1
  else s

def isWs (ch : Int) : Bool := ch == 9 || ch == 10 || ch == 13 || ch == 32

def isIdentRune (T : Tables) (ch : Int) : Bool :=
  ch ≥ 0 && !(invalidRunes.contains ch.toNat) && !(T.isSpace ch.toNat) && T.isPrint ch.toNat

inductive TokKind | eof | ident | str | chr | raw | rune (r : Nat)
deriving Repr, DecidableEq, Inhabited

def digitVal (ch : Int) : Nat :=
  if 48 ≤ ch && ch ≤ 57 then (ch - 48).toNat
  else if 97 ≤ ch && ch ≤ 102 then (ch - 97 + 10).toNat
  else if 65 ≤ ch && ch ≤ 70 then (ch - 65 + 10).toNat
  else 16

def scanDigits (s : Sc) (base : Nat) : Nat → Sc
  | 0 => s
  | n+1 => if digitVal s.ch < base then scanDigits s.next base n else s.err

def scanEscape (s0 : Sc) (quote : Int) : Sc :=
  let s := s0.next  -- char after backslash
  let ch := s.ch
  if ch == 97 || ch == 98 || ch == 102 || ch == 110 || ch == 114 || ch == 116 || ch == 118 || ch == 92 || ch == quote then s.next
  else if 48 ≤ ch && ch ≤ 55 then scanDigits s 8 3
  else if ch == 120 then scanDigits s.next 16 2
  else if ch == 117 then scanDigits s.next 16 4
  else if ch == 85 then scanDigits s.next 16 8
  else s.err

/-- body of scanString after the opening quote has been stepped over; fuel = remaining length + 1. returns (state, n). -/
def scanStringLoop (quote : Int) : Nat → Sc → Nat → Sc × Nat
  | 0, s, n => (s, n)
  | fuel+1, s, n =>
    if s.ch == quote then (s, n)
    else if s.ch == 10 || s.ch < 0 then (s.err, n)
    else if s.ch == 92 then scanStringLoop quote fuel (scanEscape s quote) (n+1)
    else scanStringLoop quote fuel s.next (n+1)

def scanString (s : Sc) (quote : Int) : Sc × Nat :=
  let s1 := s.next
  scanStringLoop quote (s1.rest.length + 2) s1 0

def scanRaw : Nat → Sc → Sc
  | 0, s => s
  | fuel+1, s => if s.ch == 96 then s else if s.ch < 0 then s.err else scanRaw fuel s.next

def lineComment : Nat → Sc → Sc
  | 0, s => s
  | fuel+1, s => if s.ch != 10 && s.ch ≥ 0 then lineComment fuel s.next else s

def blockComment : Nat → Sc → Sc
  | 0, s => s
  | fuel+1, s =>
    if s.ch < 0 then s.err
    else
      let ch0 := s.ch
      let s1 := s.next
      if ch0 == 42 && s1.ch == 47 then s1.next else blockComment fuel s1

def skipWs : Nat → Sc → Sc
  | 0, s => s
  | fuel+1, s => if isWs s.ch then skipWs fuel s.next else s

def scanIdent (T : Tables) : Nat → Sc → Sc
  | 0, s => s
  | fuel+1, s => if isIdentRune T s.ch then scanIdent T fuel s.next else s

/-- the part of `Scan` before a token is recognised: Peek, skip white space, start collecting token text -/
def sxPrep (s0 : Sc) : Sc :=
  let s := s0.peekInit
  let s := skipWs (s.rest.length + 2) s
  { s with tok := [] }

/-- recognise one token in a prepared state; `again` is `Scan` itself, used after a skipped comment -/
def sxBody (T : Tables) (again : Sc → TokKind × Sc) (s : Sc) : TokKind × Sc :=
  if isIdentRune T s.ch then (.ident, scanIdent T (s.rest.length + 2) s.next)
  else if 48 ≤ s.ch && s.ch ≤ 57 then (.rune s.ch.toNat, s.next)
  else if s.ch == -1 then (.eof, s)
  else if s.ch == 34 then (.str, (scanString s 34).1.next)
  else if s.ch == 39 then
    (.chr, (if (scanString s 39).2 != 1 then (scanString s 39).1.err else (scanString s 39).1).next)
  else if s.ch == 46 then (.rune 46, s.next)
  else if s.ch == 47 then
    if s.next.ch == 47 then again (lineComment (s.next.rest.length + 2) s.next.next)
    else if s.next.ch == 42 then again (blockComment (s.next.rest.length + 2) s.next.next)
    else (.rune 47, s.next)
  else if s.ch == 96 then (.raw, (scanRaw (s.rest.length + 2) s.next).next)
  else (.rune s.ch.toNat, s.next)

/-- text/scanner's `Scan`. The token text is `tok` of the result (bytes consumed from the token start up to,
    not including, the new look-ahead). -/
def sxScan (T : Tables) : Nat → Sc → TokKind × Sc
  | 0, s => (.eof, s)
  | fuel+1, s0 => sxBody T (sxScan T fuel) (sxPrep s0)

/-- mpath's `scanner.Scan`: skip single-rune tokens that are not printable. -/
def mScan (T : Tables) : Nat → Sc → TokKind × Sc
  | 0, s => (.eof, s)
  | fuel+1, s =>
    let (k, s1) := sxScan T (s.rest.length + 3) s
    match k with
    | .rune r => if T.isPrint r then (k, s1) else mScan T fuel s1
    | _ => (k, s1)

def scan (T : Tables) (s : Sc) : TokKind × Sc := mScan T (s.rest.length + 3) s

end Mp
