import Mp.EscProofs
import Mp.Parse
/-! C09 — bridge: the escape / unescape functions of the parser/printer MODEL (the ones diffed with the real code on
    every run) are the abstract functions of `Mp.EscProofs` instantiated with bytes and the rule table of opFunction.go,
    so the round-trip theorem holds for the model's own functions. Core-only. -/
namespace Mp
open Esc

theorem replace2_eq_pass (c o : UInt8) (l : Bytes) : replace2 92 c o l = pass (92 : UInt8) c o l := by
  fun_induction replace2 92 c o l with
  | case1 x y t h ih =>
    have : x = 92 ∧ y = c := by simpa using h
    simp [pass, this, ih]
  | case2 x y t h ih =>
    have : ¬ (x = 92 ∧ y = c) := by simpa using h
    simp [pass, this, ih]
  | case3 l h =>
    cases l with
    | nil => rfl
    | cons x t =>
      cases t with
      | nil => rfl
      | cons y t' => exact absurd rfl (h x y t')

/-- the rule table of the model, as pairs (pattern letter, output byte) -/
def byteRules : List (UInt8 × UInt8) := unescapeRules

theorem byteRules_indep : byteRules.Pairwise Indep := by decide
theorem byteRules_bs : ∀ r ∈ byteRules, r.1 ≠ 92 ∧ r.2 ≠ 92 := by decide

/-- the model's `unescape` (eight sequential whole-string replacements) is the one simultaneous left-to-right pass -/
theorem unescape_eq_unescS (s : Bytes) : unescape s = unescS (92 : UInt8) byteRules s := by
  unfold unescape
  have h1 : ∀ (rs : List (UInt8 × UInt8)) (acc : Bytes),
      rs.foldl (fun acc (x : UInt8 × UInt8) => replace2 92 x.1 x.2 acc) acc = rs.reverse.foldr (fun r acc => pass 92 r.1 r.2 acc) acc := by
    intro rs
    induction rs with
    | nil => intro acc; rfl
    | cons r rs ih =>
      intro acc
      simp only [List.foldl_cons, List.reverse_cons, List.foldr_append, List.foldr_cons, List.foldr_nil]
      rw [ih, replace2_eq_pass]
  have h2 := h1 unescapeRules s
  have hperm : byteRules.Perm unescapeRules.reverse := (List.reverse_perm _).symm
  rw [show (unescapeRules.foldl (fun acc (x : UInt8 × UInt8) => match x with | (c, o) => replace2 92 c o acc) s) =
        unescapeRules.foldl (fun acc (x : UInt8 × UInt8) => replace2 92 x.1 x.2 acc) s from rfl, h2,
      ← unescape_order_independent 92 byteRules unescapeRules.reverse hperm byteRules_bs byteRules_indep s]
  exact seq_eq_sim 92 byteRules (seq_of_pairwise 92 byteRules byteRules_bs byteRules_indep) s

theorem escChar_eq (c : UInt8) :
    (if c == 34 then [92, 34] else if c == 7 then [92, 97] else if c == 8 then [92, 98] else if c == 12 then [92, 102]
     else if c == 10 then [92, 110] else if c == 13 then [92, 114] else if c == 9 then [92, 116] else if c == 11 then [92, 118] else [c])
    = escChar (92 : UInt8) byteRules c := by
  by_cases h1 : c = 34; · subst h1; rfl
  by_cases h2 : c = 7; · subst h2; rfl
  by_cases h3 : c = 8; · subst h3; rfl
  by_cases h4 : c = 12; · subst h4; rfl
  by_cases h5 : c = 10; · subst h5; rfl
  by_cases h6 : c = 13; · subst h6; rfl
  by_cases h7 : c = 9; · subst h7; rfl
  by_cases h8 : c = 11; · subst h8; rfl
  have e1 : (c == 34) = false := by simpa using h1
  have e2 : (c == 7) = false := by simpa using h2
  have e3 : (c == 8) = false := by simpa using h3
  have e4 : (c == 12) = false := by simpa using h4
  have e5 : (c == 10) = false := by simpa using h5
  have e6 : (c == 13) = false := by simpa using h6
  have e7 : (c == 9) = false := by simpa using h7
  have e8 : (c == 11) = false := by simpa using h8
  simp only [e1, e2, e3, e4, e5, e6, e7, e8, Bool.false_eq_true, if_false]
  unfold escChar byteRules unescapeRules
  have n1 : ¬ (34 : UInt8) = c := fun h => h1 h.symm
  have n2 : ¬ (7 : UInt8) = c := fun h => h2 h.symm
  have n3 : ¬ (8 : UInt8) = c := fun h => h3 h.symm
  have n4 : ¬ (12 : UInt8) = c := fun h => h4 h.symm
  have n5 : ¬ (10 : UInt8) = c := fun h => h5 h.symm
  have n6 : ¬ (13 : UInt8) = c := fun h => h6 h.symm
  have n7 : ¬ (9 : UInt8) = c := fun h => h7 h.symm
  have n8 : ¬ (11 : UInt8) = c := fun h => h8 h.symm
  simp [invLookup, n1, n2, n3, n4, n5, n6, n7, n8]

/-- the model's `escape` is the abstract escape for the byte rule table -/
theorem escape_eq (s : Bytes) : Mp.escape s = Esc.escape (92 : UInt8) byteRules s := by
  unfold Mp.escape
  induction s with
  | nil => rfl
  | cons c t ih =>
    simp only [List.flatMap_cons, Esc.escape]
    rw [← ih, escChar_eq]

theorem byteRules_wf : WF (92 : UInt8) byteRules := by
  refine ⟨?_, by decide, by decide, ?_⟩
  · intro o c h
    have : (c, o) ∈ byteRules := invLookup_mem byteRules o c h
    simp [byteRules, unescapeRules] at this
    rcases this with ⟨rfl, rfl⟩ | ⟨rfl, rfl⟩ | ⟨rfl, rfl⟩ | ⟨rfl, rfl⟩ | ⟨rfl, rfl⟩ | ⟨rfl, rfl⟩ | ⟨rfl, rfl⟩ | ⟨rfl, rfl⟩ <;> decide
  · intro c o h
    have : (c, o) ∈ byteRules := lookup_mem byteRules c o h
    simp [byteRules, unescapeRules] at this
    rcases this with ⟨rfl, rfl⟩ | ⟨rfl, rfl⟩ | ⟨rfl, rfl⟩ | ⟨rfl, rfl⟩ | ⟨rfl, rfl⟩ | ⟨rfl, rfl⟩ | ⟨rfl, rfl⟩ | ⟨rfl, rfl⟩ <;> decide

/-- **C09 on the model's own functions**: the value of a parsed string literal survives printing and parsing again -
    for EVERY byte string `b` (the body of any string token), `unescape (escape (unescape b)) = unescape b` -/
theorem model_literal_roundtrip (b : Bytes) : unescape (Mp.escape (unescape b)) = unescape b := by
  rw [unescape_eq_unescS, escape_eq, unescape_eq_unescS]
  exact literal_roundtrip 92 byteRules byteRules_wf b

/-- and the model's `unescape` does not depend on the order in which the eight replacements are applied (the Go code
    ranges over a map): any permutation of the rule table gives the same function -/
theorem model_unescape_order_independent (T : List (UInt8 × UInt8)) (hp : byteRules.Perm T) (s : Bytes) :
    T.foldr (fun r acc => replace2 92 r.1 r.2 acc) s = unescape s := by
  rw [unescape_eq_unescS]
  have : T.foldr (fun r acc => replace2 92 r.1 r.2 acc) s = T.foldr (fun r acc => pass 92 r.1 r.2 acc) s := by
    congr 1; funext r acc; exact replace2_eq_pass r.1 r.2 acc
  rw [this, ← unescape_order_independent 92 byteRules T hp byteRules_bs byteRules_indep s]
  exact seq_eq_sim 92 byteRules (seq_of_pairwise 92 byteRules byteRules_bs byteRules_indep) s

#print axioms model_literal_roundtrip
#print axioms model_unescape_order_independent
end Mp
