/-! The result tree of CueValidate, as far as its error status goes (cue.go: `Path`, `PathIdent`, `Function`,
    `FunctionParameter`, `LogicalOperation`, `Filter`, each with an optional error text), and `HasErrors`. Core-only.

    Every node keeps one flag (an error text is present) and its children. The methods of the code:
    * `Path.HasErrors`, `LogicalOperation.HasErrors`: own error, or some part has errors;
    * `Function.HasErrors`: own error, or some parameter has an error of its own, or the part of some parameter has errors;
    * `PathIdent.HasErrors`: own error only - the filter hanging under it is not consulted (the validator copies what it finds
      there into the error of the path: that is a fact about the trees it builds, observed by the correspondence, not a fact about
      this function). -/
namespace Mp.Tree

inductive VT where
  | path (err : Bool) (parts : List VT)
  | ident (err : Bool) (filter : List VT)
  | filt (err : Bool) (cond : List VT)
  | call (err : Bool) (params : List VT)
  | param (err : Bool) (part : List VT)
  | logic (err : Bool) (parts : List VT)
deriving Inhabited

def VT.err : VT → Bool
  | .path e _ | .ident e _ | .filt e _ | .call e _ | .param e _ | .logic e _ => e

def VT.children : VT → List VT
  | .path _ c | .ident _ c | .filt _ c | .call _ c | .param _ c | .logic _ c => c

mutual
/-- `HasErrors` of cue.go -/
def hasErrors : VT → Bool
  | .path e ps => e || anyHas ps
  | .ident e _ => e
  | .filt e c => e || anyHas c
  | .call e ps => e || anyHas ps
  | .param e p => e || anyHas p
  | .logic e ps => e || anyHas ps
def anyHas : List VT → Bool
  | [] => false
  | t :: ts => hasErrors t || anyHas ts
end

mutual
/-- some node of the tree, wherever it sits, carries an error text (what a reader of the marshalled tree sees) -/
def anyNode : VT → Bool
  | .path e c | .ident e c | .filt e c | .call e c | .param e c | .logic e c => e || anyNodeL c
def anyNodeL : List VT → Bool
  | [] => false
  | t :: ts => anyNode t || anyNodeL ts
end

/-- the children `HasErrors` looks into: all of them, except under a path step (its filter) -/
def VT.seen : VT → List VT
  | .ident _ _ => []
  | t => t.children

theorem anyHas_iff (ts : List VT) : anyHas ts = true ↔ ∃ t ∈ ts, hasErrors t = true := by
  induction ts with
  | nil => simp [anyHas]
  | cons t ts ih => simp [anyHas, ih]

theorem anyNodeL_iff (ts : List VT) : anyNodeL ts = true ↔ ∃ t ∈ ts, anyNode t = true := by
  induction ts with
  | nil => simp [anyNodeL]
  | cons t ts ih => simp [anyNodeL, ih]

/-- one step of the recursion, the same for every kind of node -/
theorem hasErrors_step (t : VT) : hasErrors t = true ↔ t.err = true ∨ ∃ c ∈ t.seen, hasErrors c = true := by
  cases t <;> simp [hasErrors, VT.err, VT.seen, VT.children, anyHas_iff]

/-- **every parameter counts, whatever its position**: a call has errors iff it carries one, or one of its parameters carries
    one, or the path or group given as one of its parameters has errors -/
theorem call_hasErrors (e : Bool) (ps : List VT) :
    hasErrors (.call e ps) = true ↔ e = true ∨ ∃ p ∈ ps, hasErrors p = true := by
  simp [hasErrors, anyHas_iff]

theorem param_hasErrors (e : Bool) (part : List VT) :
    hasErrors (.param e part) = true ↔ e = true ∨ ∃ p ∈ part, hasErrors p = true := by
  simp [hasErrors, anyHas_iff]

/-- a call with a parameter in ANY position whose part has errors has errors (the statement a "last parameter only" loop breaks) -/
theorem call_param_anywhere (e : Bool) (pre post : List VT) (pe : Bool) (part : VT) (h : hasErrors part = true) :
    hasErrors (.call e (pre ++ .param pe [part] :: post)) = true := by
  rw [call_hasErrors]
  exact Or.inr ⟨.param pe [part], by simp, by simp [hasErrors, anyHas, h]⟩

/-- a group or a path has errors iff it carries one or one of its parts has errors -/
theorem logic_hasErrors (e : Bool) (ps : List VT) :
    hasErrors (.logic e ps) = true ↔ e = true ∨ ∃ p ∈ ps, hasErrors p = true := by
  simp [hasErrors, anyHas_iff]

theorem path_hasErrors (e : Bool) (ps : List VT) :
    hasErrors (.path e ps) = true ↔ e = true ∨ ∃ p ∈ ps, hasErrors p = true := by
  simp [hasErrors, anyHas_iff]

mutual
/-- what `HasErrors` reports is in the tree: it never reports an error no node carries -/
theorem hasErrors_sound : (t : VT) → hasErrors t = true → anyNode t = true
  | .path e c, h => by
      simp only [hasErrors, anyNode, Bool.or_eq_true] at *
      exact h.imp id (anyHas_sound c)
  | .ident e c, h => by
      simp only [hasErrors, anyNode, Bool.or_eq_true] at *; exact Or.inl h
  | .filt e c, h => by
      simp only [hasErrors, anyNode, Bool.or_eq_true] at *
      exact h.imp id (anyHas_sound c)
  | .call e c, h => by
      simp only [hasErrors, anyNode, Bool.or_eq_true] at *
      exact h.imp id (anyHas_sound c)
  | .param e c, h => by
      simp only [hasErrors, anyNode, Bool.or_eq_true] at *
      exact h.imp id (anyHas_sound c)
  | .logic e c, h => by
      simp only [hasErrors, anyNode, Bool.or_eq_true] at *
      exact h.imp id (anyHas_sound c)
theorem anyHas_sound : (ts : List VT) → anyHas ts = true → anyNodeL ts = true
  | [], h => by simp [anyHas] at h
  | t :: ts, h => by
      simp only [anyHas, anyNodeL, Bool.or_eq_true] at *
      exact h.elim (fun h => Or.inl (hasErrors_sound t h)) (fun h => Or.inr (anyHas_sound ts h))
end

mutual
/-- no filter anywhere below -/
def noFilter : VT → Bool
  | .path _ c | .filt _ c | .call _ c | .param _ c | .logic _ c => noFilterL c
  | .ident _ f => f.isEmpty
def noFilterL : List VT → Bool
  | [] => true
  | t :: ts => noFilter t && noFilterL ts
end

mutual
/-- on trees without filters `HasErrors` sees every node: it is exactly "some node carries an error" -/
theorem hasErrors_complete : (t : VT) → noFilter t = true → anyNode t = true → hasErrors t = true
  | .path e c, hf, h => by
      simp only [hasErrors, anyNode, noFilter, Bool.or_eq_true] at *
      exact h.imp id (anyHas_complete c hf)
  | .ident e c, hf, h => by
      simp only [hasErrors, anyNode, noFilter, Bool.or_eq_true, List.isEmpty_iff] at *
      subst hf; simpa [anyNodeL] using h
  | .filt e c, hf, h => by
      simp only [hasErrors, anyNode, noFilter, Bool.or_eq_true] at *
      exact h.imp id (anyHas_complete c hf)
  | .call e c, hf, h => by
      simp only [hasErrors, anyNode, noFilter, Bool.or_eq_true] at *
      exact h.imp id (anyHas_complete c hf)
  | .param e c, hf, h => by
      simp only [hasErrors, anyNode, noFilter, Bool.or_eq_true] at *
      exact h.imp id (anyHas_complete c hf)
  | .logic e c, hf, h => by
      simp only [hasErrors, anyNode, noFilter, Bool.or_eq_true] at *
      exact h.imp id (anyHas_complete c hf)
theorem anyHas_complete : (ts : List VT) → noFilterL ts = true → anyNodeL ts = true → anyHas ts = true
  | [], _, h => by simp [anyNodeL] at h
  | t :: ts, hf, h => by
      simp only [anyHas, anyNodeL, noFilterL, Bool.or_eq_true, Bool.and_eq_true] at *
      exact h.elim (fun h => Or.inl (hasErrors_complete t hf.1 h)) (fun h => Or.inr (anyHas_complete ts hf.2 h))
end

/-- `HasErrors` on a tree without filters = "some node carries an error text" -/
theorem hasErrors_eq_anyNode (t : VT) (hf : noFilter t = true) : hasErrors t = anyNode t := by
  cases h : anyNode t
  · cases h' : hasErrors t
    · rfl
    · rw [hasErrors_sound t h'] at h; cases h
  · exact hasErrors_complete t hf h

/-- the filter under a path step is not consulted: two trees that differ there only have the same status (so the validator
    has to lift what it finds in a condition into the path - the correspondence observes that it does) -/
theorem ident_filter_not_consulted (e : Bool) (f g : List VT) : hasErrors (.ident e f) = hasErrors (.ident e g) := by
  simp [hasErrors]

-- the premises are met by concrete trees, and the statements are not trivial on them
example : hasErrors (.call false [.param false [.path false [.ident true []]], .param false [.path false [.ident false []]]]) = true := by decide
example : hasErrors (.path false [.ident false [.filt true []]]) = false ∧ anyNode (.path false [.ident false [.filt true []]]) = true := by decide
example : noFilter (.logic false [.path false [.ident false [], .call false [.param true []]]]) = true := by decide

end Mp.Tree
