import Mp.EvalS
/-! Prototype proofs on the structural evaluator. Core-only. -/
namespace Mp

def Out.isBoolOrNotOk : Out → Prop
  | .ok (.bool false _) => True
  | .ok _ => False
  | _ => True

theorem okBool_isBool (b : Bool) : (okBool b).isBoolOrNotOk := by simp [okBool, Out.isBoolOrNotOk]

/-- C03 (typing half): a group never evaluates to a non-boolean value -/
theorem sLParts_bool (ty : Bytes) (ops : List ELPart) (cur orig : GoVal) :
    (sLParts ty ops cur orig).isBoolOrNotOk := by
  induction ops with
  | nil =>
    unfold sLParts
    split
    · exact okBool_isBool _
    · split
      · exact okBool_isBool _
      · simp [Out.isBoolOrNotOk]
  | cons op rest ih =>
    unfold sLParts
    generalize sLPart op cur orig = r
    cases r with
    | ok v =>
      simp only []
      split
      · split
        · exact okBool_isBool _
        · split
          · exact okBool_isBool _
          · exact ih
      · exact okBool_isBool _
    | _ => simp [Out.isBoolOrNotOk]

theorem sLogic_bool (l : ELogic) (cur orig : GoVal) : (sLogic l cur orig).isBoolOrNotOk := by
  cases l with
  | mk ty ops => unfold sLogic; exact sLParts_bool ty ops cur orig

/-- spec of a group over operand outcomes -/
def specFold (isAnd : Bool) : List Bool → Bool
  | [] => isAnd
  | b :: bs => if isAnd then b && specFold isAnd bs else b || specFold isAnd bs

/-- C03 (value half): if every operand evaluates to a plain bool, an AND/OR group is the conjunction/disjunction,
    for operand lists of any length -/
@[simp] theorem normalizeValue_bool (m b : Bool) : normalizeValue (.bool m b) = .bool false b := by
  simp [normalizeValue]

theorem sLParts_truth (isAnd : Bool) (tv : ELPart → Bool) (cur orig : GoVal) :
    ∀ (ops : List ELPart), (∀ op ∈ ops, ∃ m, sLPart op cur orig = .ok (.bool m (tv op))) →
    sLParts (if isAnd then tyAnd else tyOr) ops cur orig = okBool (specFold isAnd (ops.map tv)) := by
  intro ops
  induction ops with
  | nil => intro _; cases isAnd <;> simp [sLParts, specFold, tyAnd, tyOr, okBool]
  | cons op rest ih =>
    intro h
    obtain ⟨m, hop⟩ := h op List.mem_cons_self
    have hrest := ih (fun o ho => h o (List.mem_cons_of_mem _ ho))
    unfold sLParts
    rw [hop]
    cases isAnd <;> cases hb : tv op <;> simp_all [specFold, tyAnd, tyOr, okBool]
#print axioms sLParts_truth
#print axioms sLogic_bool
end Mp
