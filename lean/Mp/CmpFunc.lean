import Mp.AggProofs
import Mp.EvalS
/-! C05 — the six relations and AnyOf of the evaluator model decide by the rational VALUE of the two decimals,
    coherently, whatever their representation. -/
namespace Mp
open Dec

theorem cmp_eq_iff (a b : Dec) : (cmp a b == .eq) = true ↔ a.toRat = b.toRat := by
  rw [cmp_spec]
  rcases lt_trichotomy a.toRat b.toRat with h | h | h
  · simp [compare_lt_iff_lt.mpr h, ne_of_lt h]
  · simp [h]
  · have : compare a.toRat b.toRat = .gt := compare_gt_iff_gt.mpr h
    simp [this, ne_of_gt h]

theorem cmp_ne_gt_iff (a b : Dec) : (cmp a b != .gt) = true ↔ a.toRat ≤ b.toRat := by
  rw [cmp_spec]
  rcases lt_trichotomy a.toRat b.toRat with h | h | h
  · simp [compare_lt_iff_lt.mpr h, le_of_lt h]
  · simp [h]
  · have : compare a.toRat b.toRat = .gt := compare_gt_iff_gt.mpr h
    simp [this, not_le.mpr h]

theorem cmp_ne_lt_iff (a b : Dec) : (cmp a b != .lt) = true ↔ b.toRat ≤ a.toRat := by
  rw [cmp_spec]
  rcases lt_trichotomy a.toRat b.toRat with h | h | h
  · simp [compare_lt_iff_lt.mpr h, not_le.mpr h]
  · simp [h]
  · have : compare a.toRat b.toRat = .gt := compare_gt_iff_gt.mpr h
    simp [this, le_of_lt h]

/-- what each relation returns on two decimals -/
theorem less_func (a b : Dec) : pureFunc "Less" [.num b] (.dec a) = some (okBool (cmp a b == .lt)) := by
  unfold pureFunc; simp [firstOfNumber, prmNumbers]
theorem lessOrEqual_func (a b : Dec) : pureFunc "LessOrEqual" [.num b] (.dec a) = some (okBool (cmp a b != .gt)) := by
  unfold pureFunc; simp [firstOfNumber, prmNumbers]
theorem greater_func (a b : Dec) : pureFunc "Greater" [.num b] (.dec a) = some (okBool (cmp a b == .gt)) := by
  unfold pureFunc; simp [firstOfNumber, prmNumbers]
theorem greaterOrEqual_func (a b : Dec) : pureFunc "GreaterOrEqual" [.num b] (.dec a) = some (okBool (cmp a b != .lt)) := by
  unfold pureFunc; simp [firstOfNumber, prmNumbers]
theorem equal_func (a b : Dec) : pureFunc "Equal" [.num b] (.dec a) = some (okBool (cmp a b == .eq)) := by
  unfold pureFunc; simp
theorem notEqual_func (a b : Dec) : pureFunc "NotEqual" [.num b] (.dec a) = some (okBool (!(cmp a b == .eq))) := by
  unfold pureFunc; simp [okBool]

/-- **C05, by value**: each relation is true exactly when the corresponding relation holds between the rational values -/
theorem less_iff (a b : Dec) : pureFunc "Less" [.num b] (.dec a) = some (okBool true) ↔ a.toRat < b.toRat := by
  rw [less_func, ← cmp_lt_iff]; cases (cmp a b == .lt) <;> simp [okBool]
theorem greater_iff (a b : Dec) : pureFunc "Greater" [.num b] (.dec a) = some (okBool true) ↔ b.toRat < a.toRat := by
  rw [greater_func, ← cmp_gt_iff]; cases (cmp a b == .gt) <;> simp [okBool]
theorem equal_iff (a b : Dec) : pureFunc "Equal" [.num b] (.dec a) = some (okBool true) ↔ a.toRat = b.toRat := by
  rw [equal_func, ← cmp_eq_iff]; cases (cmp a b == .eq) <;> simp [okBool]
theorem lessOrEqual_iff (a b : Dec) : pureFunc "LessOrEqual" [.num b] (.dec a) = some (okBool true) ↔ a.toRat ≤ b.toRat := by
  rw [lessOrEqual_func, ← cmp_ne_gt_iff]; cases (cmp a b != .gt) <;> simp [okBool]
theorem greaterOrEqual_iff (a b : Dec) : pureFunc "GreaterOrEqual" [.num b] (.dec a) = some (okBool true) ↔ b.toRat ≤ a.toRat := by
  rw [greaterOrEqual_func, ← cmp_ne_lt_iff]; cases (cmp a b != .lt) <;> simp [okBool]
theorem notEqual_iff (a b : Dec) : pureFunc "NotEqual" [.num b] (.dec a) = some (okBool true) ↔ a.toRat ≠ b.toRat := by
  rw [notEqual_func]
  have := cmp_eq_iff a b
  cases h : (cmp a b == .eq) <;> simp_all [okBool]

/-- **C05, coherence**: exactly one of Less / Equal / Greater; LessOrEqual = Less ∨ Equal; GreaterOrEqual = Greater ∨ Equal;
    NotEqual = ¬Equal — as facts about the three booleans the functions return -/
theorem relations_coherent (a b : Dec) :
    let lt := (cmp a b == .lt); let eq := (cmp a b == .eq); let gt := (cmp a b == .gt)
    ((lt && !eq && !gt) || (!lt && eq && !gt) || (!lt && !eq && gt)) = true ∧
    (cmp a b != .gt) = (lt || eq) ∧ (cmp a b != .lt) = (gt || eq) := by
  cases cmp a b <;> simp

/-- **C05, representation independence**: the same two values in any other representation give the same six answers -/
theorem relations_repr_independent (a a' b b' : Dec) (ha : a.toRat = a'.toRat) (hb : b.toRat = b'.toRat) (nm : String)
    (hn : nm ∈ ["Less", "LessOrEqual", "Greater", "GreaterOrEqual", "Equal", "NotEqual"]) :
    pureFunc nm [.num b] (.dec a) = pureFunc nm [.num b'] (.dec a') := by
  have hc := cmp_repr_independent a a' b b' ha hb
  simp only [List.mem_cons, List.mem_nil_iff, or_false] at hn
  rcases hn with rfl | rfl | rfl | rfl | rfl | rfl
  · rw [less_func, less_func, hc]
  · rw [lessOrEqual_func, lessOrEqual_func, hc]
  · rw [greater_func, greater_func, hc]
  · rw [greaterOrEqual_func, greaterOrEqual_func, hc]
  · rw [equal_func, equal_func, hc]
  · rw [notEqual_func, notEqual_func, hc]

/-- values of different kinds are never equal: a number never equals a string or a boolean argument … -/
theorem equal_num_vs_other (a : Dec) (p : Prm) (hp : ∀ d, p ≠ .num d) : pureFunc "Equal" [p] (.dec a) = some (okBool false) := by
  unfold pureFunc
  cases p with
  | num d => exact absurd rfl (hp d)
  | str s => simp
  | bool b => simp
/-- … and a string or boolean never equals an argument of another kind; equal kinds compare exactly -/
theorem equal_str (s t : Bytes) : pureFunc "Equal" [.str t] (.str false s) = some (okBool (s == t)) := by
  unfold pureFunc; simp [goEq]
theorem equal_bool (x y : Bool) : pureFunc "Equal" [.bool y] (.bool false x) = some (okBool (x == y)) := by
  unfold pureFunc; simp [goEq]
theorem equal_str_vs_other (s : Bytes) (p : Prm) (hp : ∀ t, p ≠ .str t) : pureFunc "Equal" [p] (.str false s) = some (okBool false) := by
  unfold pureFunc
  cases p with
  | str t => exact absurd rfl (hp t)
  | num d => simp [goEq]
  | bool b => simp [goEq]

#print axioms less_iff
#print axioms greater_iff
#print axioms equal_iff
#print axioms lessOrEqual_iff
#print axioms greaterOrEqual_iff
#print axioms notEqual_iff
#print axioms relations_coherent
#print axioms relations_repr_independent
#print axioms equal_num_vs_other
#print axioms equal_str
#print axioms equal_str_vs_other
end Mp
