import Mp.Analysis
open Mp
partial def loop (h : IO.FS.Stream) (out : IO.FS.Stream) : IO Unit := do
  let line ← h.getLine
  if line.isEmpty then return ()
  out.putStrLn (handleAnalysis protoTables (line.trimRight))
  loop h out
def main : IO Unit := do loop (← IO.getStdin) (← IO.getStdout)
