import Mp.Driver
open Mp

partial def loop (f : String → String) (h out : IO.FS.Stream) : IO Unit := do
  let line ← h.getLine
  if line.isEmpty then return ()
  out.putStrLn (f (line.dropRightWhile (fun c => c == '\n' || c == '\r')))
  loop f h out

def main (args : List String) : IO UInt32 := do
  let T := goTables   -- unicode.IsPrint / IsSpace of the running Go (regenerated), not the ASCII stand-in
  let f : Option (String → String) := match args with
    | ["eval"] => some (handleEval T)
    | ["parse"] => some (handle T)
    | ["ana"] => some (handleAnalysis T)
    | ["cue"] => some handleCue
    | ["num"] => some handleNum
    | _ => none
  match f with
  | none => IO.eprintln "usage: drv eval|parse|ana|cue|num"; return 2
  | some f => loop f (← IO.getStdin) (← IO.getStdout); return 0
